//! Evidence files, violation reporting, known-findings matching. Shared by every engine.

use serde_json::{json, Map, Value};
use std::collections::BTreeMap;
use std::path::PathBuf;
use std::time::Instant;

pub const VERIF_ROOT: &str = "/verif";

#[derive(Clone, Copy, PartialEq, Eq, Debug)]
pub enum Tier {
    Quick,
    Thorough,
}

impl Tier {
    pub fn as_str(&self) -> &'static str {
        match self {
            Tier::Quick => "quick",
            Tier::Thorough => "thorough",
        }
    }
    pub fn is_thorough(&self) -> bool {
        matches!(self, Tier::Thorough)
    }
}

/// One violation found by an engine.
#[derive(Clone, Debug)]
pub struct Violation {
    /// Stable identity of the failing input class / minimal witness.
    pub signature: String,
    /// Human readable: what fails.
    pub what: String,
    /// Replayable artefact (engine specific JSON).
    pub replay: Value,
}

pub struct Run {
    pub property: String,
    pub tier: Tier,
    pub seed: i64,
    pub level: &'static str,
    pub started: Instant,
    pub coverage: Map<String, Value>,
    pub assumptions: Vec<String>,
    pub violations: Vec<Violation>,
    /// total violating cases (before dedup by signature)
    pub violating_cases: u64,
}

impl Run {
    pub fn new(property: &str, tier: Tier, level: &'static str) -> Self {
        let seed = std::env::var("VERIF_SEED")
            .ok()
            .and_then(|s| s.parse().ok())
            .unwrap_or(0);
        Run {
            property: property.to_string(),
            tier,
            seed,
            level,
            started: Instant::now(),
            coverage: Map::new(),
            assumptions: vec![],
            violations: vec![],
            violating_cases: 0,
        }
        .with_watchdog()
    }

    fn with_watchdog(self) -> Self {
        watchdog::start(&self.property, self.tier, self.level);
        self
    }

    pub fn cov(&mut self, key: &str, v: impl Into<Value>) {
        self.coverage.insert(key.to_string(), v.into());
    }

    pub fn assume(&mut self, s: &str) {
        self.assumptions.push(s.to_string());
    }

    /// Record a violation; violations with an already-seen signature only bump the counter.
    pub fn violation(&mut self, signature: String, what: String, replay: Value) {
        self.violating_cases += 1;
        if self.violations.iter().any(|v| v.signature == signature) {
            return;
        }
        if self.violations.len() < 64 {
            self.violations.push(Violation {
                signature,
                what,
                replay,
            });
        }
    }

    /// Write evidence, print KNOWN-FINDING / VIOLATION lines, return the process exit code.
    pub fn finish(mut self) -> i32 {
        let known = KnownFindings::load();
        let mut unlisted = 0;
        let mut lines = vec![];
        let mut known_hit = vec![];
        for v in &self.violations {
            if let Some(k) = known.matches(&self.property, &v.signature) {
                lines.push(format!(
                    "KNOWN-FINDING: property={} {}",
                    self.property, k
                ));
                known_hit.push(v.signature.clone());
            } else {
                unlisted += 1;
                let path = write_replay(&self.property, v);
                lines.push(format!(
                    "VIOLATION property={} replay={}",
                    self.property,
                    path.display()
                ));
                eprintln!("  what: {}\n  signature: {}", v.what, v.signature);
            }
        }
        let wall = self.started.elapsed().as_secs_f64();
        self.coverage
            .insert("violating_cases".into(), json!(self.violating_cases));
        self.coverage
            .insert("known_findings_hit".into(), json!(known_hit));
        let audits = crate::det::AUDITS.load(std::sync::atomic::Ordering::Relaxed);
        if audits > 0 {
            self.coverage.insert("schedules_executed_twice_and_compared".into(), json!(audits));
        }
        let ev = json!({
            "property_id": self.property,
            "tier": self.tier.as_str(),
            "seed": self.seed,
            "level": self.level,
            "coverage": Value::Object(self.coverage.clone()),
            "assumptions": self.assumptions,
            "wall_s": wall,
            "violations": unlisted,
        });
        let dir = out_root().join("evidence");
        let _ = std::fs::create_dir_all(&dir);
        let path = dir.join(format!("{}.json", self.property));
        std::fs::write(&path, serde_json::to_string_pretty(&ev).unwrap() + "\n")
            .expect("write evidence");
        for l in lines {
            println!("{l}");
        }
        println!(
            "{} {} tier={} wall={:.1}s violations={} (cases={}) evidence={}",
            if unlisted == 0 { "PASS" } else { "FAIL" },
            self.property,
            self.tier.as_str(),
            wall,
            unlisted,
            self.violating_cases,
            path.display()
        );
        if unlisted == 0 {
            0
        } else {
            1
        }
    }
}

/// Where evidence/ and replays/ are written: /verif, unless VERIF_OUT_ROOT redirects it
/// (used only by tools/try_mutant.sh so that mutant runs do not overwrite real evidence).
fn out_root() -> PathBuf {
    std::env::var("VERIF_OUT_ROOT")
        .map(PathBuf::from)
        .unwrap_or_else(|_| PathBuf::from(VERIF_ROOT))
}

fn fnv(s: &str) -> u64 {
    let mut h: u64 = 0xcbf29ce484222325;
    for b in s.bytes() {
        h ^= b as u64;
        h = h.wrapping_mul(0x100000001b3);
    }
    h
}

fn write_replay(property: &str, v: &Violation) -> PathBuf {
    let dir = out_root().join("replays").join(property);
    let _ = std::fs::create_dir_all(&dir);
    let path = dir.join(format!("{:016x}.json", fnv(&v.signature)));
    let doc = json!({
        "property": property,
        "signature": v.signature,
        "what": v.what,
        "replay": v.replay,
    });
    let _ = std::fs::write(&path, serde_json::to_string_pretty(&doc).unwrap() + "\n");
    path
}

pub struct KnownFindings {
    /// property -> [(signature pattern, what)]
    findings: BTreeMap<String, Vec<(String, String)>>,
}

impl KnownFindings {
    pub fn load() -> Self {
        let path = PathBuf::from(VERIF_ROOT).join("known_findings.json");
        let mut findings: BTreeMap<String, Vec<(String, String)>> = BTreeMap::new();
        if let Ok(text) = std::fs::read_to_string(path) {
            if let Ok(v) = serde_json::from_str::<Value>(&text) {
                if let Some(list) = v.get("findings").and_then(|f| f.as_array()) {
                    for f in list {
                        let p = f.get("property").and_then(|x| x.as_str()).unwrap_or("");
                        let s = f.get("signature").and_then(|x| x.as_str()).unwrap_or("");
                        let w = f.get("what_fails").and_then(|x| x.as_str()).unwrap_or("");
                        findings
                            .entry(p.to_string())
                            .or_default()
                            .push((s.to_string(), w.to_string()));
                    }
                }
            }
        }
        KnownFindings { findings }
    }

    /// Exact signature match only ("fixed" entries are never loaded, so they suppress nothing).
    pub fn matches(&self, property: &str, signature: &str) -> Option<String> {
        self.findings.get(property).and_then(|l| {
            l.iter()
                .find(|(s, _)| s == signature)
                .map(|(_, w)| w.clone())
        })
    }
}

/// Parse `[ID] [--tier quick|thorough] [--replay path]`.
pub struct Args {
    pub id: String,
    pub tier: Tier,
    pub replay: Option<String>,
    pub extra: Vec<String>,
}

pub fn parse_args() -> Args {
    let mut it = std::env::args().skip(1);
    let mut id = String::new();
    let mut tier = match std::env::var("VERIF_TIER").ok().as_deref() {
        Some("thorough") => Tier::Thorough,
        _ => Tier::Quick,
    };
    let mut replay = None;
    let mut extra = vec![];
    while let Some(a) = it.next() {
        match a.as_str() {
            "--tier" => {
                tier = match it.next().as_deref() {
                    Some("thorough") => Tier::Thorough,
                    _ => Tier::Quick,
                }
            }
            "--replay" => replay = it.next(),
            _ if id.is_empty() => id = a,
            _ => extra.push(a),
        }
    }
    Args {
        id,
        tier,
        replay,
        extra,
    }
}

/// Run `f` over `0..n` split across worker threads; results concatenated in index order per chunk.
pub fn par_map<T: Send, F: Fn(usize) -> T + Sync>(n: usize, threads: usize, f: F) -> Vec<T> {
    let threads = threads.max(1).min(n.max(1));
    let next = std::sync::atomic::AtomicUsize::new(0);
    let out: std::sync::Mutex<Vec<(usize, T)>> = std::sync::Mutex::new(Vec::with_capacity(n));
    std::thread::scope(|s| {
        for _ in 0..threads {
            s.spawn(|| loop {
                let i = next.fetch_add(1, std::sync::atomic::Ordering::Relaxed);
                if i >= n {
                    break;
                }
                let r = f(i);
                out.lock().unwrap().push((i, r));
            });
        }
    });
    let mut v = out.into_inner().unwrap();
    v.sort_by_key(|(i, _)| *i);
    v.into_iter().map(|(_, t)| t).collect()
}

pub fn n_threads() -> usize {
    std::thread::available_parallelism()
        .map(|n| n.get())
        .unwrap_or(4)
        .min(16)
}


/// Wall-clock watchdog over single executions. Every harness loop is bounded (horizons, poll
/// budgets), so an execution that does not come back can only be library code that does not return
/// from one poll (a busy loop) — which a cooperative, single-threaded explorer cannot interrupt
/// from the inside. Engines announce each execution with `enter` (a closure that can describe the
/// case as a replay artefact); a monitor thread reports the first execution that exceeds the limit
/// as a violation (liveness: the task never finishes), writes a minimal evidence file and exits 1.
pub mod watchdog {
    use super::*;
    use std::sync::atomic::{AtomicUsize, Ordering};
    use std::sync::{Mutex, OnceLock};

    type Describe = Box<dyn Fn() -> Value + Send>;
    struct Slot {
        since: Option<Instant>,
        describe: Option<Describe>,
    }
    const NSLOTS: usize = 128;
    static SLOTS: OnceLock<Vec<Mutex<Slot>>> = OnceLock::new();
    static NEXT: AtomicUsize = AtomicUsize::new(0);
    thread_local! {
        static MY: usize = NEXT.fetch_add(1, Ordering::Relaxed) % NSLOTS;
    }

    fn slots() -> &'static Vec<Mutex<Slot>> {
        SLOTS.get_or_init(|| (0..NSLOTS).map(|_| Mutex::new(Slot { since: None, describe: None })).collect())
    }

    thread_local! {
        static CONTEXT: std::cell::RefCell<Value> = std::cell::RefCell::new(Value::Null);
    }
    /// Engine-specific description of what this thread is exploring (scenario, fault, ...); the
    /// schedule explorer adds the schedule prefix to it for every execution.
    pub fn set_context(v: Value) {
        CONTEXT.with(|c| *c.borrow_mut() = v);
    }
    pub fn context() -> Value {
        CONTEXT.with(|c| c.borrow().clone())
    }

    pub fn limit_s() -> f64 {
        std::env::var("HDMC_WATCHDOG_S").ok().and_then(|s| s.parse().ok()).unwrap_or(60.0)
    }

    pub struct Guard(usize);
    impl Drop for Guard {
        fn drop(&mut self) {
            let mut s = slots()[self.0].lock().unwrap();
            s.since = None;
            s.describe = None;
        }
    }

    /// Announce one execution on this thread; the guard ends it.
    pub fn enter(describe: impl Fn() -> Value + Send + 'static) -> Guard {
        let i = MY.with(|m| *m);
        let mut s = slots()[i].lock().unwrap();
        s.since = Some(Instant::now());
        s.describe = Some(Box::new(describe));
        Guard(i)
    }

    /// The execution announced on this thread made progress (a long-lived `enter` covering many cases).
    pub fn touch() {
        let i = MY.with(|m| *m);
        let mut s = slots()[i].lock().unwrap();
        if s.since.is_some() {
            s.since = Some(Instant::now());
        }
    }

    pub fn start(property: &str, tier: Tier, level: &'static str) {
        static STARTED: OnceLock<()> = OnceLock::new();
        if STARTED.set(()).is_err() {
            return;
        }
        let property = property.to_string();
        let limit = limit_s();
        let _ = std::thread::Builder::new().name("watchdog".into()).spawn(move || loop {
            std::thread::sleep(std::time::Duration::from_millis(500));
            for slot in slots() {
                let fired = {
                    let s = slot.lock().unwrap();
                    match (&s.since, &s.describe) {
                        (Some(t), Some(d)) if t.elapsed().as_secs_f64() > limit => Some((t.elapsed().as_secs_f64(), d())),
                        _ => None,
                    }
                };
                if let Some((secs, case)) = fired {
                    let sig = format!("watchdog no-return engine={}", case.get("engine").and_then(|x| x.as_str()).unwrap_or("?"));
                    let v = Violation {
                        signature: sig.clone(),
                        what: format!("one execution did not finish within {secs:.0}s of wall time although every harness loop is bounded: library code did not return from a poll (busy loop) — the task never finishes; case {case}"),
                        replay: case.clone(),
                    };
                    let path = write_replay(&property, &v);
                    let ev = json!({
                        "property_id": property, "tier": tier.as_str(), "seed": 0, "level": level,
                        "coverage": {"evaluations": 0, "distinct_nontrivial": 0, "exhaustive": false, "rule": "run aborted by the execution watchdog; counts were not collected", "samples": [case], "states": 0, "transitions": 0},
                        "assumptions": [], "wall_s": secs, "violations": 1,
                    });
                    let dir = out_root().join("evidence");
                    let _ = std::fs::create_dir_all(&dir);
                    let _ = std::fs::write(dir.join(format!("{property}.json")), serde_json::to_string_pretty(&ev).unwrap() + "\n");
                    eprintln!("  what: {}\n  signature: {}", v.what, sig);
                    println!("VIOLATION property={} replay={}", property, path.display());
                    println!("FAIL {} tier={} (execution watchdog)", property, tier.as_str());
                    use std::io::Write;
                    let _ = std::io::stdout().flush();
                    std::process::exit(1);
                }
            }
        });
    }
}
