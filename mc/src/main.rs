//! hdmc — model-checking harness for hyperdriver. `hdmc <ID> [--tier quick|thorough] [--replay path]`
use hdmc::evidence::parse_args;

fn main() {
    let args = parse_args();
    // Silence panic messages from subjects that are run under catch_unwind; engines install their own hooks.
    let code = match args.id.as_str() {
        "C16" => hdmc::props::c16::run(&args),
        "C20" => hdmc::props::c20::run(&args),
        "C19" => hdmc::props::c19::run(&args),
        "C10" | "C11" => hdmc::props::hemc::run(&args, &args.id),
        other => {
            eprintln!("MACHINERY-ERROR unknown property {other}");
            2
        }
    };
    std::process::exit(code);
}
