//! hdmc — model-checking harness for hyperdriver. `hdmc <ID> [--tier quick|thorough] [--replay path]`
use hdmc::evidence::parse_args;

fn main() {
    let args = parse_args();
    // Silence panic messages from subjects that are run under catch_unwind; engines install their own hooks.
    let code = match args.id.as_str() {
        "C12" => hdmc::schedmc::c12::run(&args),
        "C13" => hdmc::props::c13::run(&args),
        "C17" => hdmc::schedmc::c17::run(&args),
        "C16" => hdmc::props::c16::run(&args),
        "C20" => hdmc::props::c20::run(&args),
        "C19" => hdmc::props::c19::run(&args),
        "C02" => hdmc::poolmc::run(&args, "C02"),
        "C03" => hdmc::poolmc::run(&args, "C03"),
        "C04" => hdmc::poolmc::run(&args, "C04"),
        "C05" => hdmc::poolmc::run(&args, "C05"),
        "C06" => hdmc::poolmc::run(&args, "C06"),
        "C14" => hdmc::poolmc::run(&args, "C14"),
        "C15" => hdmc::poolmc::run(&args, "C15"),
        "C01" => hdmc::schedmc::c01::run(&args),
        "C07" => hdmc::schedmc::c07::run(&args),
        "C09" => hdmc::schedmc::c09::run(&args),
        "C08" => hdmc::props::iomc::run_c08(&args),
        "C18" => hdmc::props::iomc::run_c18(&args),
        "CONC" => hdmc::poolmc::conc_cli(),
        "MIRI-NOOP" => 0,
        "MIRI-C08" => hdmc::props::iomc::run_miri_stage("C08"),
        "MIRI-C18" => hdmc::props::iomc::run_miri_stage("C18"),
        "C10" | "C11" => hdmc::props::hemc::run(&args, &args.id),
        other => {
            eprintln!("MACHINERY-ERROR unknown property {other}");
            2
        }
    };
    std::process::exit(code);
}
