//! Deterministic single-threaded executor owned by the explorer, plus the deviation-bounded
//! (iterative context bounding) schedule enumerator used by the schedmc scenarios.
//!
//! A *scheduling point* offers a menu: poll runnable task 0 (FIFO by wake — what tokio's
//! current-thread scheduler would do), poll any other runnable task, or fire any enabled
//! environment event (shutdown signal, cancellation, fault). Choice 0 is the default; every other
//! choice is one *deviation*.

use hyperdriver::verif_hooks as hooks;
use std::collections::VecDeque;
use std::future::Future;
use std::pin::Pin;
use std::sync::atomic::{AtomicBool, Ordering};
use std::sync::{Arc, Mutex};
use std::task::{Context, Poll, Wake, Waker};

pub type BoxFut = Pin<Box<dyn Future<Output = ()> + Send + 'static>>;

#[derive(Default)]
struct Shared {
    queue: Mutex<VecDeque<usize>>,
    /// every wake call (task id, whether it queued the task), for determinism audits
    wake_log: Mutex<Vec<(usize, bool)>>,
    spawned: Mutex<Vec<(String, BoxFut)>>,
}

/// Handle given to hyper / hyperdriver as their executor.
#[derive(Clone)]
pub struct Exec {
    shared: Arc<Shared>,
}

impl std::fmt::Debug for Exec {
    fn fmt(&self, f: &mut std::fmt::Formatter<'_>) -> std::fmt::Result {
        f.write_str("DetExec")
    }
}

impl<F> hyper::rt::Executor<F> for Exec
where
    F: Future + Send + 'static,
{
    fn execute(&self, fut: F) {
        let name = short_type_name(std::any::type_name::<F>());
        self.shared.spawned.lock().unwrap().push((
            name,
            Box::pin(async move {
                let _ = fut.await;
            }),
        ));
    }
}

fn short_type_name(s: &str) -> String {
    // keep the outermost type's last path segment
    let head = s.split('<').next().unwrap_or(s);
    let seg = head.rsplit("::").next().unwrap_or(head);
    format!("exec:{seg}")
}

struct TaskWake {
    id: usize,
    queued: AtomicBool,
    shared: Arc<Shared>,
}

impl Wake for TaskWake {
    fn wake(self: Arc<Self>) {
        self.wake_by_ref()
    }
    fn wake_by_ref(self: &Arc<Self>) {
        let fresh = !self.queued.swap(true, Ordering::SeqCst);
        if fresh {
            self.shared.queue.lock().unwrap().push_back(self.id);
        }
        if AUDIT.with(|a| a.get()) {
            self.shared.wake_log.lock().unwrap().push((self.id, fresh));
        }
    }
}

thread_local! {
    static AUDIT: std::cell::Cell<bool> = std::cell::Cell::new(std::env::var("HDMC_DET_AUDIT").is_ok());
}

thread_local! {
    /// One paused tokio runtime per worker thread, entered for the life of the thread. Nothing runs
    /// *on* it: the explorers poll every task themselves. It exists so that library code which
    /// creates tokio timers finds a time driver (instead of panicking with "no reactor running",
    /// which would be a harness artefact, not a defect); the pool engine moves its clock with `Tick`.
    static VIRTUAL_RT: &'static tokio::runtime::Runtime = {
        let rt: &'static tokio::runtime::Runtime = Box::leak(Box::new(
            tokio::runtime::Builder::new_current_thread().enable_time().start_paused(true).build().expect("tokio runtime"),
        ));
        std::mem::forget(rt.enter());
        rt
    };
}

/// Make sure this thread is inside the virtual-time runtime context.
pub fn enter_virtual_runtime() {
    VIRTUAL_RT.with(|_| ());
}

/// Move the virtual tokio clock (fires timers, which wake their tasks through the recorded wakers).
pub fn advance_virtual_time(d: std::time::Duration) {
    VIRTUAL_RT.with(|rt| {
        rt.block_on(async move {
            tokio::time::advance(d).await;
        })
    });
}

pub struct Task {
    pub name: String,
    fut: Option<BoxFut>,
    wake: Arc<TaskWake>,
    pub polls: u32,
    pub done: bool,
    pub cancelled: bool,
    pub panicked: Option<String>,
}

pub struct EnvEvent {
    pub name: String,
    pub fired: bool,
    /// fires by default when nothing is runnable
    pub auto: bool,
    pub enabled: Box<dyn Fn(&Sched) -> bool>,
    pub action: Option<Box<dyn FnOnce(&mut Sched)>>,
}

#[derive(Clone, Debug, PartialEq, Eq)]
pub enum Choice {
    Poll(usize),
    Env(usize),
}

#[derive(Clone, Debug)]
pub struct Point {
    pub menu_len: usize,
    pub chosen: usize,
    pub runnable: usize,
    pub what: String,
}

pub struct Sched {
    pub exec: Exec,
    pub tasks: Vec<Task>,
    pub envs: Vec<EnvEvent>,
    pub points: Vec<Point>,
    pub log: Vec<String>,
    pub steps: usize,
    pub horizon: usize,
    pub livelock: bool,
    pub max_runnable: usize,
    /// callbacks run whenever nothing is runnable (before auto events); return value ignored
    pub on_quiescent: Vec<Box<dyn FnMut(&mut Sched)>>,
    schedule: Vec<usize>,
    pub replay_error: Option<String>,
    /// set by an environment action: `run` returns so that the (async) caller can advance virtual
    /// time by this much and call `run` again
    pub pause_request: Option<std::time::Duration>,
}

impl Sched {
    pub fn new(schedule: Vec<usize>) -> Sched {
        if tokio::runtime::Handle::try_current().is_err() {
            enter_virtual_runtime();
        }
        hooks::capture_spawns(true);
        let _ = hooks::take_spawned();
        Sched {
            exec: Exec {
                shared: Arc::new(Shared::default()),
            },
            tasks: vec![],
            envs: vec![],
            points: vec![],
            log: vec![],
            steps: 0,
            horizon: 5000,
            livelock: false,
            max_runnable: 0,
            on_quiescent: vec![],
            schedule,
            replay_error: None,
            pause_request: None,
        }
    }

    pub fn spawn(&mut self, name: &str, fut: impl Future<Output = ()> + Send + 'static) -> usize {
        self.spawn_boxed(name.to_string(), Box::pin(fut))
    }

    fn spawn_boxed(&mut self, name: String, fut: BoxFut) -> usize {
        let id = self.tasks.len();
        let wake = Arc::new(TaskWake {
            id,
            queued: AtomicBool::new(true),
            shared: self.exec.shared.clone(),
        });
        self.exec.shared.queue.lock().unwrap().push_back(id);
        self.tasks.push(Task {
            name,
            fut: Some(fut),
            wake,
            polls: 0,
            done: false,
            cancelled: false,
            panicked: None,
        });
        id
    }

    pub fn env(&mut self, name: &str, auto: bool, enabled: impl Fn(&Sched) -> bool + 'static, action: impl FnOnce(&mut Sched) + 'static) -> usize {
        self.envs.push(EnvEvent {
            name: name.to_string(),
            fired: false,
            auto,
            enabled: Box::new(enabled),
            action: Some(Box::new(action)),
        });
        self.envs.len() - 1
    }

    /// Drop a task's future (cancellation of a client request, of a connect attempt, ...).
    pub fn cancel_task(&mut self, id: usize) {
        let t = &mut self.tasks[id];
        if !t.done {
            t.cancelled = true;
            t.done = true;
            let fut = t.fut.take();
            let r = std::panic::catch_unwind(std::panic::AssertUnwindSafe(move || drop(fut)));
            if let Err(p) = r {
                self.tasks[id].panicked = Some(panic_text(p));
            }
            self.collect_spawned();
        }
    }

    pub fn task_done(&self, id: usize) -> bool {
        self.tasks[id].done
    }

    /// First task that has not finished and whose name satisfies `pred`.
    pub fn find_live_task(&self, pred: impl Fn(&str) -> bool) -> Option<usize> {
        self.tasks.iter().position(|t| !t.done && pred(&t.name))
    }

    pub fn task_by_name(&self, name: &str) -> Option<usize> {
        self.tasks.iter().position(|t| t.name == name)
    }

    fn collect_spawned(&mut self) {
        let from_exec: Vec<(String, BoxFut)> = std::mem::take(&mut *self.exec.shared.spawned.lock().unwrap());
        for (n, f) in from_exec {
            self.spawn_boxed(n, f);
        }
        for s in hooks::take_spawned() {
            let n = format!("lib:{}", s.site.rsplit("src/").next().unwrap_or(&s.site));
            self.spawn_boxed(n, s.task);
        }
    }

    fn runnable(&self) -> Vec<usize> {
        let q = self.exec.shared.queue.lock().unwrap();
        q.iter().copied().filter(|&id| !self.tasks[id].done).collect()
    }

    fn poll_task(&mut self, id: usize) {
        {
            let mut q = self.exec.shared.queue.lock().unwrap();
            if let Some(pos) = q.iter().position(|&x| x == id) {
                q.remove(pos);
            }
        }
        let t = &mut self.tasks[id];
        t.wake.queued.store(false, Ordering::SeqCst);
        t.polls += 1;
        let Some(mut fut) = t.fut.take() else { return };
        let waker = Waker::from(t.wake.clone());
        let mut cx = Context::from_waker(&waker);
        let r = std::panic::catch_unwind(std::panic::AssertUnwindSafe(|| fut.as_mut().poll(&mut cx)));
        let t = &mut self.tasks[id];
        match r {
            Ok(Poll::Pending) => t.fut = Some(fut),
            Ok(Poll::Ready(())) => {
                t.done = true;
                drop(fut);
            }
            Err(p) => {
                t.done = true;
                t.panicked = Some(panic_text(p));
                let _ = std::panic::catch_unwind(std::panic::AssertUnwindSafe(move || drop(fut)));
            }
        }
        self.collect_spawned();
    }

    /// Run to final quiescence (nothing runnable, no auto event left) or the horizon.
    pub fn run(&mut self) {
        self.collect_spawned();
        loop {
            if self.pause_request.is_some() {
                return;
            }
            if self.steps >= self.horizon {
                self.livelock = true;
                break;
            }
            // purge finished ids from the queue
            {
                let mut q = self.exec.shared.queue.lock().unwrap();
                q.retain(|&id| !self.tasks[id].done);
            }
            let runnable = self.runnable();
            self.max_runnable = self.max_runnable.max(runnable.len());
            if runnable.is_empty() {
                let mut cbs = std::mem::take(&mut self.on_quiescent);
                for cb in cbs.iter_mut() {
                    cb(self);
                }
                cbs.extend(std::mem::take(&mut self.on_quiescent));
                self.on_quiescent = cbs;
                self.collect_spawned();
                if !self.runnable().is_empty() {
                    continue;
                }
            }
            let mut menu: Vec<Choice> = runnable.iter().map(|&id| Choice::Poll(id)).collect();
            let enabled_envs: Vec<usize> = (0..self.envs.len()).filter(|&i| !self.envs[i].fired && (self.envs[i].enabled)(self)).collect();
            if runnable.is_empty() {
                // default: the first auto event; alternatives: other enabled events
                let Some(&first_auto) = enabled_envs.iter().find(|&&i| self.envs[i].auto) else { break };
                menu.push(Choice::Env(first_auto));
                for &i in &enabled_envs {
                    if i != first_auto {
                        menu.push(Choice::Env(i));
                    }
                }
            } else {
                for &i in &enabled_envs {
                    menu.push(Choice::Env(i));
                }
            }
            let idx = self.points.len();
            let chosen = if idx < self.schedule.len() { self.schedule[idx] } else { 0 };
            if chosen >= menu.len() {
                self.replay_error = Some(format!("schedule choice {chosen} out of range (menu {}) at point {idx}", menu.len()));
                break;
            }
            let what = match &menu[chosen] {
                Choice::Poll(id) => format!("poll {}#{id}", self.tasks[*id].name),
                Choice::Env(i) => format!("env {}", self.envs[*i].name),
            };
            let what = if AUDIT.with(|a| a.get()) {
                let w = std::mem::take(&mut *self.exec.shared.wake_log.lock().unwrap());
                format!("{what} [wakes before: {w:?}]")
            } else {
                what
            };
            self.points.push(Point {
                menu_len: menu.len(),
                chosen,
                runnable: runnable.len(),
                what,
            });
            self.steps += 1;
            match menu[chosen].clone() {
                Choice::Poll(id) => self.poll_task(id),
                Choice::Env(i) => {
                    self.envs[i].fired = true;
                    if let Some(a) = self.envs[i].action.take() {
                        a(self);
                    }
                    self.collect_spawned();
                }
            }
        }
    }

    pub fn panics(&self) -> Vec<(String, String)> {
        self.tasks.iter().filter_map(|t| t.panicked.clone().map(|p| (t.name.clone(), p))).collect()
    }

    pub fn schedule_text(&self) -> Vec<String> {
        self.points.iter().map(|p| format!("{}{}", if p.chosen != 0 { "*" } else { "" }, p.what)).collect()
    }

    /// Drop every remaining task (end of execution) while the spawn capture is still installed.
    pub fn teardown(&mut self) {
        for t in self.tasks.iter_mut() {
            let f = t.fut.take();
            let _ = std::panic::catch_unwind(std::panic::AssertUnwindSafe(move || drop(f)));
        }
        self.envs.clear();
        self.on_quiescent.clear();
        let _ = std::mem::take(&mut *self.exec.shared.spawned.lock().unwrap());
        let _ = hooks::take_spawned();
    }
}

pub fn panic_text(p: Box<dyn std::any::Any + Send>) -> String {
    p.downcast_ref::<&str>()
        .map(|s| s.to_string())
        .or_else(|| p.downcast_ref::<String>().cloned())
        .unwrap_or_else(|| "panic".into())
}

/// Result of one execution as seen by the explorer.
pub struct Execution<O> {
    pub points: Vec<Point>,
    pub outcome: O,
}

/// Total number of executions that were run twice and compared (all explorations of this process).
pub static AUDITS: std::sync::atomic::AtomicU64 = std::sync::atomic::AtomicU64::new(0);

#[derive(Default, Debug, Clone)]
pub struct ExploreStats {
    pub executions: u64,
    pub by_deviations: Vec<u64>,
    pub max_points: usize,
    pub default_points: usize,
    pub max_runnable: usize,
    pub with_concurrency: u64,
    pub capped: bool,
    /// executions that were run twice and compared point by point
    pub audited: u64,
}

/// Enumerate every schedule with at most `bound` deviations from the default, depth first.
/// `run` executes one schedule prefix (defaults afterwards) and returns the points it met.
/// `visit` receives (schedule, deviations, execution); returning false stops the exploration.
pub fn explore<O>(bound: usize, max_executions: u64, mut run: impl FnMut(&[usize]) -> Execution<O>, mut visit: impl FnMut(&[usize], usize, &Execution<O>) -> bool) -> ExploreStats {
    let mut stats = ExploreStats::default();
    stats.by_deviations = vec![0; bound + 1];
    let audit_every: u64 = std::env::var("HDMC_DET_AUDIT_EVERY").ok().and_then(|s| s.parse().ok()).unwrap_or(if std::env::var("HDMC_DET_AUDIT").is_ok() { 1 } else { 8 });
    // stack of (prefix, deviations used, first index that may deviate)
    let mut stack: Vec<(Vec<usize>, usize)> = vec![(vec![], 0)];
    while let Some((prefix, used)) = stack.pop() {
        if stats.executions >= max_executions {
            stats.capped = true;
            break;
        }
        let ex = {
            let (ctx, pf) = (crate::evidence::watchdog::context(), prefix.clone());
            let _g = crate::evidence::watchdog::enter(move || {
                let mut c = if ctx.is_object() { ctx.clone() } else { serde_json::json!({"engine": "schedmc"}) };
                c["schedule"] = serde_json::json!(pf);
                c
            });
            run(&prefix)
        };
        // determinism audit: every n-th execution is run a second time under the same prefix and
        // must offer the same menus and make the same choices at every point; a divergence means
        // the harness does not own some source of nondeterminism — a machinery error, never a verdict
        if audit_every > 0 && stats.executions % audit_every == 0 {
            let ex2 = run(&prefix);
            stats.audited += 1;
            AUDITS.fetch_add(1, Ordering::Relaxed);
            let a: Vec<(usize, &str)> = ex.points.iter().map(|p| (p.menu_len, p.what.as_str())).collect();
            let b: Vec<(usize, &str)> = ex2.points.iter().map(|p| (p.menu_len, p.what.as_str())).collect();
            if a != b {
                let i = a.iter().zip(b.iter()).position(|(x, y)| x != y).unwrap_or(a.len().min(b.len()));
                eprintln!("determinism audit: prefix {prefix:?} executed twice diverges at point {i} (lengths {} / {}); context {}", a.len(), b.len(), crate::evidence::watchdog::context());
                for j in i.saturating_sub(8)..(i + 4).min(a.len().max(b.len())) {
                    eprintln!("  {j}: first {:?} | second {:?}", a.get(j), b.get(j));
                }
                println!("MACHINERY-ERROR nondeterministic execution: the same schedule prefix produced different scheduling points (see stderr); nothing this run reports can be trusted");
                use std::io::Write;
                let _ = std::io::stdout().flush();
                std::process::exit(2);
            }
        }
        stats.executions += 1;
        stats.by_deviations[used] += 1;
        stats.max_points = stats.max_points.max(ex.points.len());
        if prefix.is_empty() {
            stats.default_points = ex.points.len();
        }
        let mr = ex.points.iter().map(|p| p.runnable).max().unwrap_or(0);
        stats.max_runnable = stats.max_runnable.max(mr);
        if mr >= 2 {
            stats.with_concurrency += 1;
        }
        if !visit(&prefix, used, &ex) {
            break;
        }
        if used < bound {
            // deviate at every point at or after the end of the prefix
            for i in (prefix.len()..ex.points.len()).rev() {
                let p = &ex.points[i];
                for alt in (1..p.menu_len).rev() {
                    let mut np: Vec<usize> = ex.points[..i].iter().map(|q| q.chosen).collect();
                    np.push(alt);
                    stack.push((np, used + 1));
                }
            }
        }
    }
    stats
}
