//! One execution: the real `ConnectionPoolService` driven event by event.

use super::world::{self, Actor, DialStage, HConn, HProtocol, HTransport, Recorder};
use hyperdriver::client::pool::Config as PoolConfig;
use hyperdriver::client::ConnectionPoolService;
use hyperdriver::verif_hooks as hooks;
use hyperdriver::Body;
use std::future::Future;
use std::pin::Pin;
use std::sync::atomic::{AtomicBool, Ordering};
use std::sync::Arc;
use std::task::{Context, Poll, Wake, Waker};
use std::time::Duration;
use tower::Service;

pub type Svc = ConnectionPoolService<HTransport, HProtocol, Recorder, Body>;
pub type RF = <Svc as Service<http::Request<Body>>>::Future;

/// Idle timeout unit: T = 100 s on the frozen pool clock.
pub const T_SECS: u64 = 100;

#[derive(Clone, Copy, PartialEq, Eq, Hash, Debug, PartialOrd, Ord)]
pub enum Ev {
    Issue { o: u8, h2: bool },
    Poll(u8),
    Cancel(u8),
    DialOk(u8),
    DialFail(u8),
    HsOk(u8),
    HsFail(u8),
    Respond(u8),
    ConnReady(u8),
    ConnClose(u8),
    Upgrade(u8),
    RunBg(u8),
    /// 0 = T/2, 1 = 2T, 2 = 3T/4 (only with `fine_ticks`)
    Tick(u8),
    /// macro step: Respond(r), Poll(r), ConnReady(c), RunBg(hand-back task) in one transition
    Finish(u8),
    /// a spurious wake-up: whoever waits for connection c to become ready is woken although nothing changed
    /// (a connection that wakes its waiter on every body chunk does this)
    Nudge(u8),
}

use crate::det::{advance_virtual_time, enter_virtual_runtime};

impl Ev {
    pub fn text(&self) -> String {
        match *self {
            Ev::Issue { o, h2 } => format!("Issue(o{o},{})", if h2 { "h2" } else { "h1" }),
            Ev::Poll(r) => format!("Poll(r{r})"),
            Ev::Cancel(r) => format!("Cancel(r{r})"),
            Ev::DialOk(d) => format!("DialOk(d{d})"),
            Ev::DialFail(d) => format!("DialFail(d{d})"),
            Ev::HsOk(d) => format!("HsOk(d{d})"),
            Ev::HsFail(d) => format!("HsFail(d{d})"),
            Ev::Respond(r) => format!("Respond(r{r})"),
            Ev::ConnReady(c) => format!("ConnReady(c{c})"),
            Ev::ConnClose(c) => format!("ConnClose(c{c})"),
            Ev::Upgrade(c) => format!("Upgrade(c{c})"),
            Ev::RunBg(t) => format!("RunBg(t{t})"),
            Ev::Tick(k) => format!("Tick({})", match k { 0 => "T/2", 1 => "2T", _ => "3T/4" }),
            Ev::Finish(r) => format!("Finish(r{r})"),
            Ev::Nudge(c) => format!("Nudge(c{c})"),
        }
    }
    pub fn parse(s: &str) -> Option<Ev> {
        let (name, rest) = s.split_once('(')?;
        let arg = rest.trim_end_matches(')');
        let num = |p: &str| -> Option<u8> { arg.trim_start_matches(p).parse().ok() };
        Some(match name {
            "Issue" => {
                let (o, p) = arg.split_once(',')?;
                Ev::Issue { o: o.trim_start_matches('o').parse().ok()?, h2: p == "h2" }
            }
            "Poll" => Ev::Poll(num("r")?),
            "Cancel" => Ev::Cancel(num("r")?),
            "DialOk" => Ev::DialOk(num("d")?),
            "DialFail" => Ev::DialFail(num("d")?),
            "HsOk" => Ev::HsOk(num("d")?),
            "HsFail" => Ev::HsFail(num("d")?),
            "Respond" => Ev::Respond(num("r")?),
            "ConnReady" => Ev::ConnReady(num("c")?),
            "ConnClose" => Ev::ConnClose(num("c")?),
            "Upgrade" => Ev::Upgrade(num("c")?),
            "RunBg" => Ev::RunBg(num("t")?),
            "Tick" => Ev::Tick(match arg { "T/2" => 0, "2T" => 1, _ => 2 }),
            "Finish" => Ev::Finish(num("r")?),
            "Nudge" => Ev::Nudge(num("c")?),
            _ => return None,
        })
    }
}

pub fn hist_text(h: &[Ev]) -> String {
    h.iter().map(|e| e.text()).collect::<Vec<_>>().join(" ")
}

/// A global sequence counter: orders wake-ups and peer closes that happen inside one concurrent step.
pub static SEQ: std::sync::atomic::AtomicU64 = std::sync::atomic::AtomicU64::new(1);
pub fn next_seq() -> u64 {
    SEQ.fetch_add(1, Ordering::SeqCst)
}

/// `.0`: woken since the last poll; `.1`: sequence number of the first wake-up since it was last reset (0 = none).
pub struct WakeFlag(pub AtomicBool, pub std::sync::atomic::AtomicU64);
impl WakeFlag {
    fn note(&self) {
        self.0.store(true, Ordering::SeqCst);
        let _ = self.1.compare_exchange(0, next_seq(), Ordering::SeqCst, Ordering::SeqCst);
    }
}
impl Wake for WakeFlag {
    fn wake(self: Arc<Self>) {
        self.note();
    }
    fn wake_by_ref(self: &Arc<Self>) {
        self.note();
    }
}

#[derive(Clone, Debug, PartialEq, Eq, Hash)]
pub enum Outcome {
    Pending,
    Ok(usize),
    Err(String),
    Cancelled,
}

pub struct Req {
    pub origin: u8,
    pub h2: bool,
    pub fut: Option<Pin<Box<RF>>>,
    pub flag: Arc<WakeFlag>,
    pub polled: bool,
    pub outcome: Outcome,
    pub issue_step: u32,
    pub handoff: Option<usize>, // index into world.handoffs
    /// conn sitting in this request's waiter channel (tracked by diff, see `track_inbox`)
    pub inbox: Option<usize>,
    /// an idle, open, unexpired connection was available when this request was issued
    pub avail_at_issue: Option<usize>,
    pub cancelled_step: Option<u32>,
    pub abandoned_dialing: bool,
    pub is_probe: bool,
    /// connection popped from the idle list when the request was issued (sits in the checkout)
    pub held: Option<usize>,
    /// that entry had been idle longer than the timeout when it was popped
    pub held_expired: bool,
    /// hand-back step of the connection this request received from the pool (held or inbox)
    pub recv_handback_step: Option<u32>,
    /// an open, pooled HTTP/2 connection for the origin existed when this request was issued
    pub h2_exists_at_issue: Option<usize>,
}

pub struct Bg {
    pub site: String,
    pub task: Option<hooks::BoxedTask>,
    pub flag: Arc<WakeFlag>,
    pub polled: bool,
    pub spawned_by: Actor,
    pub spawn_step: u32,
}

impl Bg {
    pub fn kind(&self) -> &'static str {
        if self.site.contains("pool/mod.rs") {
            "when-ready"
        } else if self.site.contains("pool/checkout.rs") {
            "delayed-checkout"
        } else {
            "other"
        }
    }
}

#[derive(Clone, Debug)]
pub struct SimConfig {
    pub name: String,
    pub origins: Vec<String>,
    pub max_requests: usize,
    pub allow_h1: bool,
    pub allow_h2: bool,
    pub continue_after_preemption: bool,
    pub max_idle_per_host: usize,
    /// None / Some(0) / Some(T)
    pub idle_timeout: Option<u64>,
    /// length of the time unit T in milliseconds (default 100 s; a sub-second unit exercises
    /// idle timeouts below one second)
    pub t_ms: u64,
    pub split_handshake: bool,
    pub strict_is_open: bool,
    /// the inner service polls the handed-out connection for readiness before sending
    pub exec_polls_ready: bool,
    /// the protocol only yields HTTP/1.1 connections
    pub h1_only_protocol: bool,
    /// spurious wake-ups of whoever waits for a busy connection
    pub ev_nudge: bool,
    pub ev_cancel: bool,
    pub ev_dial_fail: bool,
    pub ev_close: bool,
    pub ev_upgrade: bool,
    pub max_ticks: usize,
    /// issue all requests before anything else (burst slices)
    pub burst: bool,
    /// bound on the history length (None = search to fixpoint)
    pub max_depth: Option<usize>,
    /// replace Respond / ConnReady / hand-back task steps by the macro step Finish(r)
    pub macro_finish: bool,
    /// a third tick of 3T/4, so that instants strictly between T and 3T/2 are reachable
    pub fine_ticks: bool,
    /// events applied before the search starts (the search begins in a non-initial state);
    /// requests issued here count towards `max_requests`
    pub prelude: Vec<String>,
}

impl SimConfig {
    pub fn base(name: &str) -> Self {
        SimConfig {
            name: name.to_string(),
            origins: vec!["http://a".into()],
            max_requests: 2,
            allow_h1: true,
            allow_h2: true,
            continue_after_preemption: true,
            max_idle_per_host: 32,
            idle_timeout: None,
            t_ms: 1000 * T_SECS,
            split_handshake: false,
            strict_is_open: true,
            exec_polls_ready: false,
            h1_only_protocol: false,
            ev_nudge: false,
            ev_cancel: true,
            ev_dial_fail: true,
            ev_close: true,
            ev_upgrade: false,
            max_ticks: 0,
            burst: false,
            max_depth: None,
            macro_finish: false,
            fine_ticks: false,
            prelude: vec![],
        }
    }
    pub fn describe(&self) -> String {
        format!(
            "{}: N={} origins={:?} h1={} h2={} preempt-continue={} max_idle={} idle_timeout={:?} split-hs={} strict-open={} cancel={} dial-fail={} close={} upgrade={} ticks<={}{}",
            self.name, self.max_requests, self.origins, self.allow_h1, self.allow_h2, self.continue_after_preemption,
            self.max_idle_per_host, self.idle_timeout, self.split_handshake, self.strict_is_open, self.ev_cancel,
            self.ev_dial_fail, self.ev_close, self.ev_upgrade, self.max_ticks, if self.burst { " burst" } else { "" }
        ) + if self.exec_polls_ready { " exec-polls-ready" } else { "" } + if self.h1_only_protocol { " h1-only-protocol" } else { "" } + if self.ev_nudge { " spurious-wakes" } else { "" } + if self.fine_ticks { " fine-ticks" } else { "" } + &(if self.prelude.is_empty() { String::new() } else { format!(" starting-after=[{}]", self.prelude.join(" ")) }) + if self.macro_finish { " macro-finish" } else { "" } + &self.max_depth.map(|d| format!(" depth<={d}")).unwrap_or_else(|| " to-fixpoint".into())
    }
}

/// Result of applying one event.
#[derive(Default, Debug, Clone)]
pub struct StepReport {
    pub obs: Vec<String>,
    /// dial ids created in this step
    pub new_dials: Vec<usize>,
    /// handoff indices created in this step
    pub new_handoffs: Vec<usize>,
    pub spawned: Vec<usize>,
    pub poll_result: Option<String>,
    /// connections that entered an idle list in this step
    pub new_idle: Vec<usize>,
    /// (conn, background task) pairs: readiness polled by a background task in this step
    pub bg_ready_polls: Vec<(usize, u8)>,
    /// background tasks that finished in this step
    pub bg_done: Vec<u8>,
}

pub struct Sim {
    pub cfg: SimConfig,
    pub svc: Svc,
    pub reqs: Vec<Req>,
    pub bgs: Vec<Bg>,
    pub ticks_used: usize,
    /// clock offset in quarters of T
    pub clock_half_t: u64,
    pub history: Vec<Ev>,
    /// per origin (token order = issue order): request ids that entered the waiter queue, in order
    pub waiter_log: Vec<Vec<u8>>,
    pub panicked: Option<String>,
    /// snapshot after the last event
    pub snap: hooks::PoolSnapshot,
    /// set while a deterministic drain runs: no further requests are issued
    pub draining: bool,
}

impl Drop for Sim {
    fn drop(&mut self) {
        // drop everything that may touch the world before the world is reset
        for r in &mut self.reqs {
            r.fut = None;
        }
        for b in &mut self.bgs {
            b.task = None;
        }
        for _ in 0..16 {
            if hooks::take_spawned().is_empty() {
                break;
            }
        }
    }
}

impl Sim {
    pub fn new(cfg: &SimConfig) -> Sim {
        enter_virtual_runtime();
        // tasks left over from the previous execution (spawned while it was being torn down) must be
        // dropped while the old world still exists: their destructors talk to harness connections
        for _ in 0..16 {
            if hooks::take_spawned().is_empty() {
                break;
            }
        }
        // fresh world
        world::with(|w| {
            *w = world::World::default();
            w.split_handshake = cfg.split_handshake;
            w.strict_is_open = cfg.strict_is_open;
            w.exec_polls_ready = cfg.exec_polls_ready;
            w.h1_only_protocol = cfg.h1_only_protocol;
        });
        hooks::capture_spawns(true);
        let _ = hooks::take_spawned();
        hooks::freeze_clock();
        let mut pc = PoolConfig::default();
        pc.idle_timeout = cfg.idle_timeout.map(|t| Duration::from_millis(t * cfg.t_ms));
        pc.max_idle_per_host = cfg.max_idle_per_host;
        pc.continue_after_preemption = cfg.continue_after_preemption;
        let svc = ConnectionPoolService::new(HTransport, HProtocol, Recorder, pc);
        let mut sim = Sim {
            cfg: cfg.clone(),
            svc,
            reqs: vec![],
            bgs: vec![],
            ticks_used: 0,
            clock_half_t: 0,
            history: vec![],
            waiter_log: vec![vec![]; cfg.origins.len()],
            panicked: None,
            snap: hooks::PoolSnapshot::default(),
            draining: false,
        };
        for t in &cfg.prelude {
            let e = Ev::parse(t).unwrap_or_else(|| panic!("prelude event {t}"));
            sim.apply(e);
        }
        sim.history.clear();
        sim
    }

    pub fn replay(cfg: &SimConfig, hist: &[Ev]) -> Sim {
        let mut sim = Sim::new(cfg);
        for &e in hist {
            sim.apply(e);
        }
        sim
    }

    pub fn snapshot(&self) -> hooks::PoolSnapshot {
        self.svc
            .verif_pool_snapshot(&|c: &HConn| format!("{}", c.c))
            .unwrap_or_default()
    }

    /// token (as in the snapshot) of origin index o, if the pool has seen it
    pub fn token_of(&self, snap: &hooks::PoolSnapshot, o: u8) -> Option<usize> {
        let uri: http::Uri = self.cfg.origins[o as usize].parse().unwrap();
        let want = format!(
            "UriKey(\"{}\", Some({}))",
            uri.scheme_str().unwrap(),
            uri.authority().unwrap()
        );
        snap.keys.iter().find(|(k, _)| *k == want).map(|(_, t)| *t)
    }

    /// enabled events of the un-abbreviated alphabet
    pub fn enabled_raw(&self) -> Vec<Ev> {
        if !self.cfg.macro_finish {
            return self.enabled();
        }
        let mut c = self.cfg.clone();
        c.macro_finish = false;
        self.enabled_with(&c)
    }

    pub fn enabled(&self) -> Vec<Ev> {
        let v = self.enabled_with(&self.cfg);
        if self.cfg.macro_finish {
            // the macro step subsumes these
            return v.into_iter().filter(|e| !matches!(e, Ev::ConnReady(_)) && !matches!(e, Ev::RunBg(t) if self.bgs[*t as usize].kind() == "when-ready")).collect();
        }
        v
    }

    fn enabled_with(&self, cfg: &SimConfig) -> Vec<Ev> {
        let mut v = vec![];
        if self.panicked.is_some() {
            return v;
        }
        let issued = self.reqs.iter().filter(|r| !r.is_probe).count();
        if issued < cfg.max_requests && !self.draining {
            for o in 0..cfg.origins.len() as u8 {
                if cfg.allow_h1 {
                    v.push(Ev::Issue { o, h2: false });
                }
                if cfg.allow_h2 {
                    v.push(Ev::Issue { o, h2: true });
                }
            }
            if cfg.burst {
                return v;
            }
        }
        world::with(|w| {
            for (i, r) in self.reqs.iter().enumerate() {
                if r.fut.is_some() && (!r.polled || r.flag.0.load(Ordering::SeqCst)) {
                    v.push(Ev::Poll(i as u8));
                }
            }
            for (i, b) in self.bgs.iter().enumerate() {
                if b.task.is_some() && (!b.polled || b.flag.0.load(Ordering::SeqCst)) {
                    v.push(Ev::RunBg(i as u8));
                }
            }
            for (i, d) in w.dials.iter().enumerate() {
                if d.dropped {
                    continue;
                }
                match d.stage {
                    DialStage::Connecting => {
                        v.push(Ev::DialOk(i as u8));
                        if cfg.ev_dial_fail {
                            v.push(Ev::DialFail(i as u8));
                        }
                    }
                    DialStage::HsPending => {
                        v.push(Ev::HsOk(i as u8));
                        if cfg.ev_dial_fail {
                            v.push(Ev::HsFail(i as u8));
                        }
                    }
                    _ => {}
                }
            }
            for x in w.exchanges.iter() {
                if !x.responded && !x.dropped {
                    v.push(if cfg.macro_finish { Ev::Finish(x.req) } else { Ev::Respond(x.req) });
                }
            }
            for (i, c) in w.conns.iter().enumerate() {
                if c.handles <= 0 {
                    continue;
                }
                if c.busy && c.open && c.holders_settled(w, i) {
                    v.push(Ev::ConnReady(i as u8));
                    if cfg.ev_upgrade && !c.h2 && !c.upgraded {
                        v.push(Ev::Upgrade(i as u8));
                    }
                }
                if cfg.ev_close && c.open {
                    v.push(Ev::ConnClose(i as u8));
                }
                if cfg.ev_nudge && c.busy && c.open && !c.ready_wakers.is_empty() {
                    v.push(Ev::Nudge(i as u8));
                }
            }
            if cfg.ev_cancel {
                for (i, r) in self.reqs.iter().enumerate() {
                    if r.fut.is_some() {
                        v.push(Ev::Cancel(i as u8));
                    }
                }
            }
        });
        if self.ticks_used < cfg.max_ticks && cfg.idle_timeout == Some(1) {
            v.push(Ev::Tick(0));
            v.push(Ev::Tick(1));
            if cfg.fine_ticks {
                v.push(Ev::Tick(2));
            }
        }
        v
    }

    /// "Obligatory" events: those whose perpetual postponement the property does not allow
    /// (woken polls, pending dials/handshakes, unanswered exchanges, busy connections).
    pub fn obligatory(&self) -> Vec<Ev> {
        self.enabled()
            .into_iter()
            .filter(|e| {
                matches!(
                    e,
                    Ev::Poll(_) | Ev::RunBg(_) | Ev::DialOk(_) | Ev::HsOk(_) | Ev::Respond(_) | Ev::ConnReady(_) | Ev::Finish(_)
                )
            })
            .collect()
    }

    pub(super) fn poll_with<F: Future + ?Sized>(fut: Pin<&mut F>, flag: &Arc<WakeFlag>) -> Result<Poll<F::Output>, String> {
        flag.0.store(false, Ordering::SeqCst);
        let waker = Waker::from(flag.clone());
        let mut cx = Context::from_waker(&waker);
        let mut fut = fut;
        match std::panic::catch_unwind(std::panic::AssertUnwindSafe(|| fut.as_mut().poll(&mut cx))) {
            Ok(p) => Ok(p),
            Err(p) => Err(p
                .downcast_ref::<&str>()
                .map(|s| s.to_string())
                .or_else(|| p.downcast_ref::<String>().cloned())
                .unwrap_or_else(|| "panic".into())),
        }
    }

    fn collect_spawned(&mut self, by: Actor, rep: &mut StepReport) {
        self.absorb_spawned(by, hooks::take_spawned(), rep);
    }

    pub(super) fn absorb_spawned(&mut self, by: Actor, spawned: Vec<hooks::Spawned>, rep: &mut StepReport) {
        let step = world::with(|w| w.step);
        for s in spawned {
            let idx = self.bgs.len();
            rep.obs.push(format!("spawn t{idx} at {}", s.site.rsplit('/').next().unwrap_or("")));
            self.bgs.push(Bg {
                site: s.site,
                task: Some(s.task),
                flag: Arc::new(WakeFlag(AtomicBool::new(false), std::sync::atomic::AtomicU64::new(0))),
                polled: false,
                spawned_by: by,
                spawn_step: step,
            });
            rep.spawned.push(idx);
        }
    }

    pub fn apply(&mut self, e: Ev) -> StepReport {
        let mut rep = StepReport::default();
        let pre_snap = std::mem::take(&mut self.snap);
        let (n_dials, n_handoffs, n_conns) = world::with(|w| {
            w.step += 1;
            w.obs.clear();
            w.ready_polls.clear();
            (w.dials.len(), w.handoffs.len(), w.conns.len())
        });
        self.history.push(e);
        let mut actor = Actor::None;
        match e {
            Ev::Issue { o, h2 } => {
                let r = self.reqs.len() as u8;
                actor = Actor::Req(r);
                world::set_actor(Some(actor));
                world::with(|w| w.request_h2.push(h2));
                let uri = format!("{}/r{}", self.cfg.origins[o as usize], r);
                let req = http::Request::builder()
                    .uri(uri)
                    .version(if h2 { http::Version::HTTP_2 } else { http::Version::HTTP_11 })
                    .body(Body::empty())
                    .unwrap();
                // availability of a reusable connection, judged on the pre-state (C04 a/c)
                let avail = self.available_conn(&pre_snap, o, h2);
                let origin = world::origin_of(&self.cfg.origins[o as usize].parse().unwrap());
                let h2_exists = if h2 {
                    world::with(|w| {
                        w.conns.iter().position(|c| c.h2 && c.open && c.handles > 0 && c.ever_pooled && c.origin == origin)
                    })
                } else {
                    None
                };
                let fut = match std::panic::catch_unwind(std::panic::AssertUnwindSafe(|| self.svc.call(req))) {
                    Ok(f) => Some(Box::pin(f)),
                    Err(_) => {
                        self.panicked = Some("panic in call".into());
                        None
                    }
                };
                let step = world::with(|w| w.step);
                self.reqs.push(Req {
                    origin: o,
                    h2,
                    fut,
                    flag: Arc::new(WakeFlag(AtomicBool::new(false), std::sync::atomic::AtomicU64::new(0))),
                    polled: false,
                    outcome: Outcome::Pending,
                    issue_step: step,
                    handoff: None,
                    inbox: None,
                    avail_at_issue: avail,
                    cancelled_step: None,
                    abandoned_dialing: false,
                    is_probe: false,
                    held: None,
                    held_expired: false,
                    recv_handback_step: None,
                    h2_exists_at_issue: h2_exists,
                });
            }
            Ev::Poll(r) => {
                actor = Actor::Req(r);
                world::set_actor(Some(actor));
                let req = &mut self.reqs[r as usize];
                req.polled = true;
                let res = {
                    let fut = req.fut.as_mut().expect("poll of a finished request");
                    Self::poll_with(fut.as_mut(), &req.flag)
                };
                match res {
                    Err(p) => {
                        self.panicked = Some(p.clone());
                        req.fut = None;
                        req.outcome = Outcome::Err(format!("panic: {p}"));
                        rep.poll_result = Some("panic".into());
                    }
                    Ok(Poll::Pending) => rep.poll_result = Some("pending".into()),
                    Ok(Poll::Ready(out)) => {
                        req.fut = None; // drops the exchange (and its Pooled) if any
                        match out {
                            Ok(_) => {
                                let h = world::with(|w| w.handoffs.iter().rposition(|h| h.req == r));
                                let c = h.map(|h| world::with(|w| w.handoffs[h].conn)).unwrap_or(usize::MAX);
                                req.outcome = Outcome::Ok(c);
                                rep.poll_result = Some(format!("ok(c{c})"));
                            }
                            Err(e) => {
                                let kind = classify_error(&e);
                                req.outcome = Outcome::Err(kind.clone());
                                rep.poll_result = Some(format!("err({kind})"));
                            }
                        }
                    }
                }
            }
            Ev::Cancel(r) => {
                actor = Actor::Req(r);
                world::set_actor(Some(actor));
                let step = world::with(|w| w.step);
                let req = &mut self.reqs[r as usize];
                let stage = req.fut.as_ref().map(|f| f.verif_stage()).unwrap_or_default();
                req.abandoned_dialing = stage.contains("inner=connecting");
                req.fut = None;
                req.outcome = Outcome::Cancelled;
                req.cancelled_step = Some(step);
            }
            Ev::DialOk(_) | Ev::DialFail(_) | Ev::HsOk(_) | Ev::HsFail(_) | Ev::Respond(_) | Ev::ConnReady(_) | Ev::ConnClose(_) | Ev::Upgrade(_) | Ev::Nudge(_) => apply_env(e),
            Ev::RunBg(t) => {
                actor = Actor::Bg(t);
                world::set_actor(Some(actor));
                let bg = &mut self.bgs[t as usize];
                bg.polled = true;
                let res = {
                    let task = bg.task.as_mut().expect("run of a finished task");
                    Self::poll_with(task.as_mut(), &bg.flag)
                };
                match res {
                    Err(p) => {
                        self.panicked = Some(p);
                        bg.task = None;
                        rep.poll_result = Some("panic".into());
                    }
                    Ok(Poll::Pending) => rep.poll_result = Some("pending".into()),
                    Ok(Poll::Ready(())) => {
                        bg.task = None;
                        rep.poll_result = Some("done".into());
                    }
                }
            }
            Ev::Finish(r) => {
                // expand into the ordinary events; each is applied through the normal path
                self.history.pop();
                let hist_len = self.history.len();
                let mut subs = vec![Ev::Respond(r), Ev::Poll(r)];
                let conn = world::with(|w| w.exchanges.iter().find(|x| x.req == r && !x.responded && !x.dropped).map(|x| x.conn));
                if let Some(c) = conn {
                    subs.push(Ev::ConnReady(c as u8));
                }
                let mut merged = StepReport::default();
                for sub in subs {
                    if !self.enabled_raw().contains(&sub) {
                        continue;
                    }
                    let r2 = self.apply(sub);
                    merged.obs.extend(r2.obs);
                    merged.new_dials.extend(r2.new_dials);
                    merged.new_handoffs.extend(r2.new_handoffs);
                    merged.spawned.extend(r2.spawned);
                    merged.new_idle.extend(r2.new_idle);
                }
                // run the hand-back task(s) that are now runnable
                loop {
                    let next = self.enabled_raw().into_iter().find(|e| matches!(e, Ev::RunBg(t) if self.bgs[*t as usize].kind() == "when-ready"));
                    let Some(e2) = next else { break };
                    let r2 = self.apply(e2);
                    merged.obs.extend(r2.obs);
                    merged.new_idle.extend(r2.new_idle);
                    merged.bg_ready_polls.extend(r2.bg_ready_polls);
                    merged.bg_done.extend(r2.bg_done);
                    merged.new_handoffs.extend(r2.new_handoffs);
                    merged.new_dials.extend(r2.new_dials);
                    merged.spawned.extend(r2.spawned);
                }
                self.history.truncate(hist_len);
                self.history.push(e);
                return merged;
            }
            Ev::Tick(k) => {
                self.ticks_used += 1;
                // in quarters of T
                let q = tick_quarters(k);
                self.clock_half_t += q;
                hooks::advance_clock(Duration::from_millis(self.cfg.t_ms * q / 4));
                // the same amount of virtual tokio time, so that timers created by pool code fire
                advance_virtual_time(Duration::from_millis(self.cfg.t_ms * q / 4));
            }
        }
        world::set_actor(None);
        self.collect_spawned(actor, &mut rep);
        // bookkeeping derived from diffs
        let post_snap = self.snapshot();
        self.track(&pre_snap, &post_snap, e, n_conns, &mut rep);
        world::with(|w| {
            rep.bg_ready_polls = w.ready_polls.iter().filter_map(|(c, a)| if let Actor::Bg(t) = a { Some((*c, *t)) } else { None }).collect();
        });
        if let Ev::RunBg(t) = e {
            if self.bgs[t as usize].task.is_none() {
                rep.bg_done.push(t);
            }
        }
        self.snap = post_snap;
        world::with(|w| {
            rep.new_dials = (n_dials..w.dials.len()).collect();
            rep.new_handoffs = (n_handoffs..w.handoffs.len()).collect();
            let mut obs = std::mem::take(&mut w.obs);
            obs.extend(std::mem::take(&mut rep.obs));
            rep.obs = obs;
        });
        for &h in &rep.new_handoffs {
            let r = world::with(|w| w.handoffs[h].req);
            self.reqs[r as usize].handoff = Some(h);
            self.reqs[r as usize].inbox = None;
        }
        if let Some(p) = &rep.poll_result {
            rep.obs.push(format!("result {p}"));
        }
        rep
    }

    /// A connection the statement says must be reused by a request for origin `o` issued now.
    pub fn available_conn(&self, snap: &hooks::PoolSnapshot, o: u8, _h2: bool) -> Option<usize> {
        let tok = self.token_of(snap, o)?;
        let ts = snap.tokens.iter().find(|t| t.token == tok)?;
        let t = self.cfg.idle_timeout.filter(|&t| t > 0).map(|t| Duration::from_millis(t * self.cfg.t_ms));
        // `pop` takes from the back and discards from the first expired entry downwards; a connection
        // is "available" if some idle entry is open and not older than the timeout.
        for e in ts.idle.iter().rev() {
            let expired = t.map(|t| e.age > t).unwrap_or(false);
            if e.open && !expired {
                return e.conn.parse().ok();
            }
        }
        None
    }

    /// Maintain `waiter_log`, `inbox`, `ever_pooled`, `last_handback_step` from before/after snapshots.
    pub(super) fn track(&mut self, pre: &hooks::PoolSnapshot, post: &hooks::PoolSnapshot, e: Ev, n_conns_before: usize, rep: &mut StepReport) {
        // 1. waiter log: an Issue whose request did not get an idle connection enqueued a waiter;
        //    one that did holds the popped entry in its checkout
        if let Ev::Issue { o, .. } = e {
            let r = (self.reqs.len() - 1) as u8;
            let stage = self.reqs[r as usize].fut.as_ref().map(|f| f.verif_stage()).unwrap_or_default();
            if stage.contains("holds=false") {
                self.waiter_log[o as usize].push(r);
            } else if stage.contains("holds=true") {
                // the popped entry: the last open, unexpired entry from the back of the pre-state list
                if let Some(tok) = self.token_of(pre, o) {
                    if let Some(ts) = pre.tokens.iter().find(|t| t.token == tok) {
                        let t = self.cfg.idle_timeout.filter(|&t| t > 0).map(|t| Duration::from_millis(t * self.cfg.t_ms));
                        let post_ids: Vec<&str> = post.tokens.iter().find(|t| t.token == tok).map(|t| t.idle.iter().map(|i| i.conn.as_str()).collect()).unwrap_or_default();
                        // entries removed from the back: pre minus post (post is a prefix of pre)
                        let removed = &ts.idle[post_ids.len().min(ts.idle.len())..];
                        // the held one is the removed entry the checkout got: the first open one scanning from the back
                        for ent in removed.iter().rev() {
                            if ent.open {
                                if let Ok(c) = ent.conn.parse::<usize>() {
                                    let req = &mut self.reqs[r as usize];
                                    req.held = Some(c);
                                    req.held_expired = t.map(|t| ent.age > t).unwrap_or(false);
                                    req.recv_handback_step = world::with(|w| w.conns[c].last_handback_step);
                                }
                                break;
                            }
                        }
                    }
                }
            }
        }
        // 2. idle entries that are new in `post`: hand-back into the idle list
        let step = world::with(|w| w.step);
        for ts in &post.tokens {
            let pre_ids: Vec<&str> = pre
                .tokens
                .iter()
                .find(|t| t.token == ts.token)
                .map(|t| t.idle.iter().map(|i| i.conn.as_str()).collect())
                .unwrap_or_default();
            let mut pre_pool = pre_ids.clone();
            for i in &ts.idle {
                if let Some(pos) = pre_pool.iter().position(|p| *p == i.conn) {
                    pre_pool.remove(pos);
                } else if let Ok(c) = i.conn.parse::<usize>() {
                    world::with(|w| {
                        w.conns[c].ever_pooled = true;
                        w.conns[c].last_handback_step = Some(step);
                    });
                    rep.new_idle.push(c);
                }
            }
        }
        // 3. inbox: a live request with a connection sitting in its waiter channel (reported by the
        //    checkout's stage hook); it is the one pushed in this step.
        let mut newly: Vec<u8> = vec![];
        for (i, r) in self.reqs.iter().enumerate() {
            let Some(f) = r.fut.as_ref() else { continue };
            let st = f.verif_stage();
            if st.contains("mail=true") && r.inbox.is_none() {
                newly.push(i as u8);
            }
        }
        if !newly.is_empty() {
            // the pushed connection is one this step touched: polled for readiness by a background
            // task, created in this step, or held by the request that was polled
            let mut involved: Vec<usize> = world::with(|w| w.ready_polls.iter().map(|(c, _)| *c).collect());
            involved.extend(n_conns_before..world::with(|w| w.conns.len()));
            if let Ev::Poll(r) = e {
                if let Some(c) = self.reqs[r as usize].held {
                    involved.push(c);
                }
            }
            let all_limbo = self.limbo_conns(post);
            let mut limbo: Vec<usize> = all_limbo.iter().copied().filter(|c| involved.contains(c)).collect();
            if limbo.is_empty() {
                limbo = all_limbo;
            }
            for r in newly {
                let o = self.reqs[r as usize].origin;
                let origin = world::origin_of(&self.cfg.origins[o as usize].parse().unwrap());
                // prefer a limbo connection of the same origin not yet assigned to an inbox
                let taken: Vec<usize> = self.reqs.iter().filter_map(|q| q.inbox).collect();
                let pick = limbo
                    .iter()
                    .copied()
                    .find(|&c| world::with(|w| w.conns[c].origin == origin) && (world::with(|w| w.conns[c].h2) || !taken.contains(&c)))
                    .or_else(|| limbo.first().copied());
                if let Some(c) = pick {
                    self.reqs[r as usize].inbox = Some(c);
                    self.reqs[r as usize].recv_handback_step = Some(step);
                    world::with(|w| {
                        w.conns[c].ever_pooled = true;
                        w.conns[c].last_handback_step = Some(step);
                    });
                } else {
                    // a waiter was consumed without a connection being visible: leave unassigned;
                    // the fingerprint still records the request as "popped"
                    self.reqs[r as usize].inbox = Some(usize::MAX);
                }
            }
        }
        // a request that is gone cannot have an inbox
        for r in &mut self.reqs {
            if r.fut.is_none() {
                r.inbox = None;
            }
        }
    }

    /// Request ids currently in the pool's waiter queue for origin o (suffix rule).
    pub fn queue_ids(&self, snap: &hooks::PoolSnapshot, o: u8) -> Vec<u8> {
        let Some(tok) = self.token_of(snap, o) else { return vec![] };
        let len = snap
            .tokens
            .iter()
            .find(|t| t.token == tok)
            .map(|t| t.waiters_closed.len())
            .unwrap_or(0);
        let log = &self.waiter_log[o as usize];
        log[log.len().saturating_sub(len)..].to_vec()
    }

    /// Connections with live handles that are not accounted for by idle entries or exchanges.
    pub fn limbo_conns(&self, snap: &hooks::PoolSnapshot) -> Vec<usize> {
        world::with(|w| {
            let mut v = vec![];
            for (c, cs) in w.conns.iter().enumerate() {
                let idle = snap
                    .tokens
                    .iter()
                    .flat_map(|t| t.idle.iter())
                    .filter(|i| i.conn.parse::<usize>().ok() == Some(c))
                    .count() as i32;
                if cs.handles - idle - cs.holders > 0 {
                    v.push(c);
                }
            }
            v
        })
    }

    pub fn quiescent(&self) -> bool {
        self.obligatory().is_empty()
    }

    /// Issue a probe request beyond the budget (C03 probe closure / C19 follow-up).
    pub fn issue_probe(&mut self, o: u8, h2: bool) -> u8 {
        let saved = self.cfg.max_requests;
        self.cfg.max_requests = usize::MAX;
        self.apply(Ev::Issue { o, h2 });
        self.cfg.max_requests = saved;
        let r = (self.reqs.len() - 1) as u8;
        self.reqs[r as usize].is_probe = true;
        r
    }

    /// Deterministic drain: repeatedly fire the first obligatory event until none is left.
    /// Returns false if the horizon was hit (livelock).
    pub fn drain(&mut self, horizon: usize) -> bool {
        self.draining = true;
        for _ in 0..horizon {
            let ob = self.obligatory();
            let Some(&e) = ob.first() else {
                self.draining = false;
                return true;
            };
            self.apply(e);
        }
        self.draining = false;
        false
    }
}


/// Length of tick `k` in quarters of T.
pub fn tick_quarters(k: u8) -> u64 {
    match k {
        0 => 2,
        1 => 8,
        _ => 3,
    }
}

/// The environment events: one mutation of the harness world plus the wake-ups it causes. No call into the
/// library happens here, so the interleaving engine can run one of these between two steps of an operation.
pub fn apply_env(e: Ev) {
    match e {
        Ev::DialOk(d) => world::with(|w| {
            let dial = &mut w.dials[d as usize];
            dial.stage = DialStage::Connected;
            if let Some(wk) = dial.waker.take() {
                wk.wake();
            }
        }),
        Ev::DialFail(d) => world::with(|w| {
            let dial = &mut w.dials[d as usize];
            dial.stage = DialStage::ConnectFailed;
            if let Some(wk) = dial.waker.take() {
                wk.wake();
            }
        }),
        Ev::HsOk(d) => world::with(|w| {
            let dial = &mut w.dials[d as usize];
            dial.stage = DialStage::HsOk;
            if let Some(wk) = dial.waker.take() {
                wk.wake();
            }
        }),
        Ev::HsFail(d) => world::with(|w| {
            let dial = &mut w.dials[d as usize];
            dial.stage = DialStage::HsFailed;
            if let Some(wk) = dial.waker.take() {
                wk.wake();
            }
        }),
        Ev::Respond(r) => world::with(|w| {
            if let Some(x) = w.exchanges.iter_mut().find(|x| x.req == r && !x.responded && !x.dropped) {
                x.responded = true;
                if let Some(wk) = x.waker.take() {
                    wk.wake();
                }
            }
        }),
        Ev::ConnReady(c) => world::with(|w| {
            let cs = &mut w.conns[c as usize];
            cs.busy = false;
            for wk in cs.ready_wakers.drain(..) {
                wk.wake();
            }
        }),
        Ev::ConnClose(c) => world::with(|w| {
            let step = w.step;
            // the interleaving engine also closes "the connection the running operation is about to create"
            // (index = number of connections when the group started): nothing to do while it does not exist
            if c as usize >= w.conns.len() {
                return;
            }
            let cs = &mut w.conns[c as usize];
            cs.open = false;
            cs.close_step = Some(step);
            cs.close_seq = Some(next_seq());
            for wk in cs.ready_wakers.drain(..) {
                wk.wake();
            }
        }),
        Ev::Upgrade(c) => world::with(|w| {
            let step = w.step;
            let cs = &mut w.conns[c as usize];
            cs.open = false;
            cs.upgraded = true;
            cs.close_step = Some(step);
            cs.close_seq = Some(next_seq());
            for wk in cs.ready_wakers.drain(..) {
                wk.wake();
            }
        }),
        Ev::Nudge(c) => world::with(|w| {
            for wk in w.conns[c as usize].ready_wakers.drain(..) {
                wk.wake();
            }
        }),
        _ => unreachable!("not an environment event"),
    }
}

impl world::ConnState {
    /// The exchange that made this connection busy has been answered or dropped.
    fn holders_settled(&self, w: &world::World, c: usize) -> bool {
        !w.exchanges.iter().any(|x| x.conn == c && !x.responded && !x.dropped)
    }
}

pub(super) fn classify_error(e: &hyperdriver::client::Error) -> String {
    let mut s = format!("{e}");
    let mut src = std::error::Error::source(e);
    while let Some(x) = src {
        s.push_str(" / ");
        s.push_str(&x.to_string());
        src = x.source();
    }
    if s.contains("connection closed") && !s.contains("refused") {
        "unavailable".into()
    } else if s.contains("refused") {
        "connect-failed".into()
    } else if s.contains("handshake") {
        "handshake-failed".into()
    } else {
        s
    }
}
