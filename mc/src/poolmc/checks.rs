//! Property oracles evaluated on every transition / state of the pool exploration.

use super::sim::{Ev, Outcome, Sim, StepReport};
use super::world::{self, Actor, DialStage};

#[derive(Clone, Debug, PartialEq, Eq, Hash, PartialOrd, Ord)]
pub struct Viol {
    pub prop: &'static str,
    pub sub: &'static str,
    pub msg: String,
}

fn v(prop: &'static str, sub: &'static str, msg: String) -> Viol {
    Viol { prop, sub, msg }
}

/// What the step oracle needs to know about the state *before* the event.
pub struct Pre {
    pub inbox: Vec<Option<usize>>,
    pub stages: Vec<String>,
    pub held: Vec<Option<usize>>,
    pub handed: Vec<bool>,
    pub conn_open: Vec<bool>,
    pub conn_handles: Vec<i32>,
    /// dial ids owned (and still pending) per request
    pub pending_dials_of_req: Vec<Vec<usize>>,
    pub dial_dropped: Vec<bool>,
    /// per origin of the configuration: an idle, open, unexpired connection the pool held before the event
    pub avail: Vec<Option<usize>>,
}

pub fn capture_pre(sim: &Sim) -> Pre {
    let mut p = capture_pre_inner(sim);
    p.avail = (0..sim.cfg.origins.len()).map(|o| sim.available_conn(&sim.snap, o as u8, false)).collect();
    p
}

fn capture_pre_inner(sim: &Sim) -> Pre {
    let stages: Vec<String> = sim
        .reqs
        .iter()
        .map(|r| r.fut.as_ref().map(|f| f.verif_stage()).unwrap_or_default())
        .collect();
    world::with(|w| Pre {
        inbox: sim.reqs.iter().map(|r| r.inbox).collect(),
        stages,
        held: sim.reqs.iter().map(|r| r.held).collect(),
        handed: sim.reqs.iter().map(|r| r.handoff.is_some()).collect(),
        conn_open: w.conns.iter().map(|c| c.open).collect(),
        conn_handles: w.conns.iter().map(|c| c.handles).collect(),
        dial_dropped: w.dials.iter().map(|d| d.dropped).collect(),
        avail: vec![],
        pending_dials_of_req: (0..sim.reqs.len())
            .map(|r| {
                w.dials
                    .iter()
                    .enumerate()
                    .filter(|(_, d)| d.owner == Actor::Req(r as u8) && !d.dropped && dial_pending(d.stage))
                    .map(|(i, _)| i)
                    .collect()
            })
            .collect(),
    })
}

pub fn dial_pending(s: DialStage) -> bool {
    matches!(s, DialStage::Connecting | DialStage::Connected | DialStage::HsPending | DialStage::HsOk)
}

/// Oracles for one transition `pre --e--> sim`.
pub fn check_step(pre: &Pre, e: Ev, rep: &StepReport, sim: &Sim) -> Vec<Viol> {
    let mut out = vec![];
    let cfg = &sim.cfg;
    if let Some(p) = &sim.panicked {
        // whatever property is being explored: after a panic in a pool task the histories that
        // follow are not the library's behaviour any more
        for prop in ["C01", "C02", "C03", "C04", "C05", "C06", "C14", "C15"] {
            out.push(v(prop, "panic", format!("panic inside the pool: {p}")));
        }
    }
    world::with(|w| {
        // ---- hand-offs
        for &hi in &rep.new_handoffs {
            let h = &w.handoffs[hi];
            let c = &w.conns[h.conn];
            let r = &sim.reqs[h.req as usize];
            if !c.h2 {
                if h.holders_at != 0 {
                    out.push(v("C02", "two-holders", format!("non-multiplexed c{} handed to r{} while {} other request(s) still hold it", h.conn, h.req, h.holders_at)));
                }
                if h.busy_at {
                    out.push(v("C02", "not-ready", format!("non-multiplexed c{} handed to r{} before it reported ready again after its previous use", h.conn, h.req)));
                }
            }
            if h.upgraded_at {
                out.push(v("C02", "upgraded", format!("c{} was taken over by an upgrade and is handed out again to r{}", h.conn, h.req)));
            }
            // C05
            if let Some(cs) = c.close_step {
                if cs < r.issue_step {
                    out.push(v("C05", "closed-before-issue", format!("r{} (issued at step {}) was given c{} which was closed at step {}", h.req, r.issue_step, h.conn, cs)));
                } else if let Some(hb) = r.recv_handback_step {
                    if cs < hb && pre.held[h.req as usize].is_some() | pre.inbox[h.req as usize].is_some() {
                        out.push(v("C05", "closed-before-handback", format!("r{} was given c{} which was closed at step {} before it was handed back to the pool at step {}", h.req, h.conn, cs, hb)));
                    }
                }
            }
            if r.held_expired && pre.held[h.req as usize] == Some(h.conn) {
                out.push(v("C05", "expired", format!("r{} was given c{} which had been idle longer than the idle timeout", h.req, h.conn)));
            }
            // C06
            let want = world::origin_of(&cfg.origins[r.origin as usize].parse().unwrap());
            // URI host names are case-insensitive (RFC 3986 §3.2.2): `http://a` and `http://A` are one origin
            if !c.origin.eq_ignore_ascii_case(&want) {
                out.push(v("C06", "cross-origin", format!("r{} for {} was sent on c{} which was established for {}", h.req, want, h.conn, c.origin)));
            }
            // C04 (c): carried on an existing h2 connection
            if r.h2 && !r.is_probe {
                if let Some(ex) = r.h2_exists_at_issue {
                    if cfg.idle_timeout != Some(1) && cfg.max_idle_per_host >= 1 && h.conn != ex && w.conns[ex].open && w.conns[h.conn].created_step > r.issue_step {
                        out.push(v("C04", "h2-not-shared", format!("HTTP/2 r{} was carried on new c{} although open HTTP/2 c{} for the origin existed when it was issued", h.req, h.conn, ex)));
                    }
                }
            }
        }
        // ---- dials
        for &di in &rep.new_dials {
            let d = &w.dials[di];
            if let Actor::Req(r) = d.owner {
                let rq = &sim.reqs[r as usize];
                if let Some(c) = rq.avail_at_issue {
                    out.push(v("C04", "dial-despite-idle", format!("r{r} dialed (d{di}) although idle open c{c} for its origin was in the pool when it was issued")));
                }
                if rq.h2 && !rq.is_probe && cfg.idle_timeout != Some(1) && cfg.max_idle_per_host >= 1 {
                    if let Some(c) = rq.h2_exists_at_issue {
                        if w.conns[c].open {
                            out.push(v("C04", "h2-dial-despite-connection", format!("HTTP/2 r{r} dialed (d{di}) although open HTTP/2 c{c} for its origin existed when it was issued")));
                        }
                    }
                }
            }
            // a request starts dialling (first poll of its connector) although the pool holds an idle, open
            // connection for its origin at that moment: the released connection was not offered to it
            if let (Actor::Req(r), Ev::Poll(_)) = (d.owner, e) {
                let rq = &sim.reqs[r as usize];
                if let Some(Some(c)) = pre.avail.get(rq.origin as usize) {
                    let cs = &w.conns[*c];
                    if cs.open && !cs.busy && !rq.is_probe {
                        out.push(v("C04", "dial-while-idle", format!("r{r} started to dial (d{di}) while idle open c{c} for its origin was sitting in the pool")));
                    }
                }
            }
            if d.owner_h2 {
                for (oi, od) in w.dials.iter().enumerate() {
                    if oi != di && od.owner_h2 && od.origin == d.origin && !od.dropped && dial_pending(od.stage) {
                        out.push(v("C04", "duplicate-h2-dial", format!("HTTP/2 dial d{di} for {} started while HTTP/2 dial d{oi} for the same origin is still in flight", d.origin)));
                        break;
                    }
                }
            }
            if matches!(e, Ev::Cancel(_)) {
                out.push(v("C04", "cancel-dials", format!("cancelling a request started dial d{di}")));
            }
        }
        // ---- C01 (pool level): a request that was not cancelled fails only if something broke. In a history
        //      without a failed dial or handshake, a peer close, an upgrade or a cancellation, no request may
        //      resolve with an error.
        if let (Ev::Poll(r), Some(res)) = (e, rep.poll_result.as_deref()) {
            if res.starts_with("err(") && !sim.history.iter().any(|h| matches!(h, Ev::DialFail(_) | Ev::HsFail(_) | Ev::ConnClose(_) | Ev::Upgrade(_) | Ev::Cancel(_))) {
                out.push(v("C01", "spurious-failure", format!("r{r} resolved with {res} although no connection attempt failed, no peer closed a connection and nothing was cancelled")));
            }
        }
        // ---- C14 (1): served by the released connection no later than the next poll
        if let Ev::Poll(r) = e {
            if let Some(c) = pre.inbox[r as usize] {
                if c != usize::MAX && rep.new_handoffs.is_empty() && sim.reqs[r as usize].fut.is_some() {
                    out.push(v("C14", "not-served-by-released", format!("r{r} had released c{c} delivered to it but its next poll did not use it (stage before: {})", pre.stages[r as usize])));
                }
            }
        }
        // ---- abandon of an own in-flight attempt (cancel, or pre-emption by a delivered connection)
        let abandon: Option<u8> = match e {
            Ev::Cancel(r) if pre.stages[r as usize].contains("inner=connecting") => Some(r),
            Ev::Poll(r) if pre.stages[r as usize].contains("inner=connecting") && pre.inbox[r as usize].is_some() && !rep.new_handoffs.is_empty() => Some(r),
            _ => None,
        };
        if let Some(r) = abandon {
            let spawned_delayed = rep.spawned.iter().any(|&t| sim.bgs[t].kind() == "delayed-checkout");
            let started = !pre.stages[r as usize].contains("(ready-transport)");
            if cfg.continue_after_preemption {
                if !spawned_delayed {
                    out.push(v("C14", "abandoned-not-continued", format!("r{r} abandoned its connection attempt but no background continuation was started (continue_after_preemption=true)")));
                }
                for &d in &pre.pending_dials_of_req[r as usize] {
                    if w.dials[d].dropped {
                        out.push(v("C14", "abandoned-dial-dropped", format!("r{r} abandoned d{d} and the attempt was dropped although continue_after_preemption=true")));
                    }
                }
            } else {
                if spawned_delayed {
                    out.push(v("C14", "abandoned-continued", format!("r{r} abandoned its attempt and a background continuation was started although continue_after_preemption=false")));
                }
                if started {
                    for &d in &pre.pending_dials_of_req[r as usize] {
                        if !w.dials[d].dropped {
                            out.push(v("C14", "abandoned-dial-leaks", format!("r{r} abandoned d{d} but the attempt was not dropped (continue_after_preemption=false)")));
                        }
                    }
                }
            }
        }
        // ---- C14 (1): an exclusive connection released while a request is still waiting for its own
        //      attempt must be offered to that request, not parked in the idle list
        for &c in &rep.new_idle {
            let cs = &w.conns[c];
            if cs.h2 || !cs.open || cs.busy {
                continue;
            }
            for (ri, r) in sim.reqs.iter().enumerate() {
                if Some(ri as u8) == match e { Ev::Poll(x) | Ev::Cancel(x) => Some(x), _ => None } {
                    continue;
                }
                let Some(f) = r.fut.as_ref() else { continue };
                let st = f.verif_stage();
                let origin = world::origin_of(&cfg.origins[r.origin as usize].parse().unwrap());
                if origin.eq_ignore_ascii_case(&cs.origin) && r.handoff.is_none() && r.inbox.is_none() && r.held.is_none() && st.contains("inner=connecting") && !st.contains("holds=true") {
                    out.push(v("C14", "released-bypasses-waiting", format!("open c{c} for {} was released and parked idle although r{ri} is still waiting for its own connection attempt (stage {st})", cs.origin)));
                    break;
                }
            }
        }
        // ---- C04: an open connection released by a finished request is kept
        for &t in &rep.bg_done {
            if sim.bgs[t as usize].kind() != "when-ready" {
                continue;
            }
            for (c, bt) in &rep.bg_ready_polls {
                if *bt != t {
                    continue;
                }
                let cs = &w.conns[*c];
                let snap = &sim.snap;
                let room = snap.max_idle_per_host > 0 && snap.tokens.iter().all(|tk| tk.idle.len() < snap.max_idle_per_host || tk.idle.iter().any(|i| i.conn.parse::<usize>().ok() == Some(*c)));
                if cs.open && !cs.busy && !cs.upgraded && cs.handles <= 0 && room {
                    out.push(v("C04", "released-connection-dropped", format!("open, ready c{c} was released by a finished request but the pool dropped it instead of keeping it")));
                }
            }
        }
        // ---- C14 (2): with continue_after_preemption an attempt that was started is never thrown away
        if cfg.continue_after_preemption {
            for (di, d) in w.dials.iter().enumerate() {
                let was = pre.dial_dropped.get(di).copied().unwrap_or(false);
                if d.dropped && !was && dial_pending(d.stage) {
                    out.push(v("C14", "attempt-dropped", format!("connection attempt d{di} (stage {:?}) was dropped although continue_after_preemption=true requires abandoned attempts to complete in the background", d.stage)));
                }
            }
        }
        // ---- C04 (d): cancelling a request that has not used a connection destroys a pooled one
        if let Ev::Cancel(r) = e {
            if !pre.handed[r as usize] {
                for c in [pre.held[r as usize], pre.inbox[r as usize]].into_iter().flatten() {
                    if c != usize::MAX && pre.conn_open[c] && w.conns[c].open && !w.conns[c].busy && w.conns[c].handles == 0 {
                        out.push(v("C04", "cancel-destroys-idle", format!("cancelling r{r} before it used a connection destroyed healthy pooled c{c}")));
                    }
                }
            }
        }
    });
    out.extend(check_state(sim));
    out
}

/// Invariants of a single state.
pub fn check_state(sim: &Sim) -> Vec<Viol> {
    let mut out = vec![];
    let snap = &sim.snap;
    for t in &snap.tokens {
        if t.idle.len() > snap.max_idle_per_host {
            out.push(v("C15", "idle-bound", format!("{} idle connections retained for one origin (token {}) with max_idle_per_host={}", t.idle.len(), t.token, snap.max_idle_per_host)));
        }
    }
    // the bound is per origin, whatever tables the pool files the connections in: count the idle entries by
    // the origin each connection was dialled for, over all tokens (including tokens no key maps to any more)
    world::with(|w| {
        let mut per_origin: std::collections::BTreeMap<String, usize> = Default::default();
        for t in &snap.tokens {
            for e in &t.idle {
                if let Some(cs) = e.conn.parse::<usize>().ok().and_then(|c| w.conns.get(c)) {
                    *per_origin.entry(cs.origin.to_ascii_lowercase()).or_default() += 1;
                }
            }
        }
        for (o, n) in per_origin {
            if n > snap.max_idle_per_host {
                out.push(v("C15", "idle-bound-per-origin", format!("{n} idle connections retained for origin {o} (spread over several pool tokens) with max_idle_per_host={}", snap.max_idle_per_host)));
            }
        }
    });
    let mut toks: Vec<usize> = snap.keys.iter().map(|(_, t)| *t).collect();
    toks.sort();
    if toks.windows(2).any(|w| w[0] == w[1]) {
        out.push(v("C06", "token-collision", format!("two different origins share one pool token: {:?}", snap.keys)));
    }
    // C06 (state form): an idle entry is filed under the key of the origin it was dialled for. A
    // connection parked under another origin's token is a mis-delivery waiting for the next request,
    // so it is reported in the state in which it happens, not only at the hand-off.
    world::with(|w| {
        for (oi, o) in sim.cfg.origins.iter().enumerate() {
            let Some(tok) = sim.token_of(snap, oi as u8) else { continue };
            let Some(ts) = snap.tokens.iter().find(|t| t.token == tok) else { continue };
            let want = world::origin_of(&o.parse().unwrap());
            for e in &ts.idle {
                if let Ok(c) = e.conn.parse::<usize>() {
                    if let Some(cs) = w.conns.get(c) {
                        if !cs.origin.eq_ignore_ascii_case(&want) {
                            out.push(v("C06", "idle-under-wrong-origin", format!("idle connection c{c}, established for {}, is filed under the pool key of {want}", cs.origin)));
                        }
                    }
                }
            }
        }
    });
    world::with(|w| {
        for (i, c) in w.conns.iter().enumerate() {
            if !c.h2 && c.handles > 1 {
                out.push(v("C02", "two-handles", format!("non-multiplexed c{i} has {} live handles", c.handles)));
            }
        }
    });
    // a request that had a connection delivered must have been woken (C03 / C14)
    for (i, r) in sim.reqs.iter().enumerate() {
        if r.fut.is_some() && r.polled && r.inbox.is_some() && r.inbox != Some(usize::MAX) && !r.flag.0.load(std::sync::atomic::Ordering::SeqCst) {
            out.push(v("C14", "delivered-not-woken", format!("c{} was delivered to waiting r{i} but r{i} was not woken", r.inbox.unwrap())));
        }
    }
    out
}

/// Checks that apply in quiescent states (no obligatory event enabled).
pub fn check_quiescent(sim: &Sim) -> Vec<Viol> {
    let mut out = vec![];
    for (i, r) in sim.reqs.iter().enumerate() {
        if r.fut.is_some() {
            out.push(v("C03", "stranded", format!("r{i} is still pending although nothing it could wait for is outstanding (stage {})", r.fut.as_ref().unwrap().verif_stage())));
        }
        debug_assert!(r.fut.is_some() || r.outcome != Outcome::Pending);
    }
    // C14 (2): the connection of an abandoned attempt ends up available in the pool
    let snap = &sim.snap;
    world::with(|w| {
        for (ci, c) in w.conns.iter().enumerate() {
            let d = &w.dials[c.from_dial];
            let abandoned = match d.owner {
                Actor::Req(r) => {
                    let rq = &sim.reqs[r as usize];
                    // the owner did not receive this connection itself
                    rq.fut.is_none() && rq.handoff.map(|h| w.handoffs[h].conn != ci).unwrap_or(true)
                }
                _ => true,
            };
            if !(abandoned && sim.cfg.continue_after_preemption) {
                continue;
            }
            // what happens to the connection *after* it reached the pool is C04's business
            if !c.ever_pooled && c.handoffs == 0 {
                let room = snap.tokens.iter().all(|t| t.idle.len() < snap.max_idle_per_host) && snap.max_idle_per_host > 0;
                if room && c.open {
                    out.push(v("C14", "background-connection-lost", format!("c{ci} from abandoned attempt d{} never became available in the pool (live handles {})", c.from_dial, c.handles)));
                }
            }
        }
    });
    out
}
