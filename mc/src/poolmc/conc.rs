//! E6 `conc` — intra-poll interleavings of two pool operations (multi-threaded runtime).
//!
//! The breadth-first engine treats one poll / one drop as atomic. On a multi-threaded runtime two
//! polls run at the same time and interleave wherever they touch shared state: the pool lock and
//! the waiter channels. This engine takes every state of a configuration's sequential state graph,
//! every pair of operations of two different actors that are enabled there (issue / poll / cancel /
//! background-task poll), and executes the pair on two helper threads under baton passing: the
//! `verif-hooks` interleaving seam parks a thread just before every pool-lock acquisition and
//! every waiter-channel operation, and the explorer decides which thread continues. Every
//! interleaving of the two operations at those points is executed (depth-first over the decision
//! points, no bound); only one thread ever runs at a time, so executions are deterministic.
//!
//! Oracles: the hand-off / state invariants that do not depend on sequential bookkeeping (C02,
//! C05, C06, C15 — the idle bound is also evaluated at every decision point, while both
//! operations are parked), no panic, and — for states that no sequential order reaches — a
//! deterministic run to quiescence on which nobody may be stranded, no connection may be lost in
//! limbo and a fresh request per origin must complete (C03).

use super::bfs::{self, canon, fp_of, Fp};
use super::checks::{self, Viol};
use super::sim::{classify_error, hist_text, Ev, Outcome, Req, Sim, SimConfig, StepReport, WakeFlag, RF};
use super::world::{self, Actor};
use crate::evidence::{n_threads, par_map};
use hyperdriver::verif_hooks as hooks;
use hyperdriver::Body;
use std::cell::RefCell;
use std::collections::{BTreeMap, BTreeSet, HashSet};
use std::pin::Pin;
use std::sync::atomic::{AtomicBool, Ordering};
use std::sync::{Arc, Condvar, Mutex};
use std::task::Poll;
use std::time::{Duration, Instant};
use tower::Service;

pub enum PollRes {
    Panic(String),
    Pending,
    Ok,
    Err(String),
    Done,
}

pub enum JobOut {
    Issued(Option<Pin<Box<RF>>>),
    Polled(Option<Pin<Box<RF>>>, PollRes),
    Cancelled,
    Ran(Option<hooks::BoxedTask>, PollRes),
    /// an environment event (peer close, dial completion, ...) was applied
    Env,
    Crashed(String),
}

type JobFn = Box<dyn FnOnce() -> JobOut + Send>;

const MAIN: u8 = 0;
/// helper threads per worker: up to three operations can overlap
const NH: usize = 3;

struct St {
    turn: u8,
    /// 0 idle, 1 has a job (not started), 2 parked at a yield point, 3 done, 4 running
    state: [u8; NH],
    site: [&'static str; NH],
    jobs: [Option<JobFn>; NH],
    actors: [Option<Actor>; NH],
    outs: [Option<(JobOut, Vec<hooks::Spawned>)>; NH],
    clock: (Option<Instant>, Duration),
    /// park right after the pool mutex is taken as well (a parked holder makes `try_lock` fail)
    critical: bool,
    quit: bool,
}

struct Shared {
    m: Mutex<St>,
    cv: Condvar,
}

pub struct Helpers {
    sh: Arc<Shared>,
    threads: Vec<std::thread::JoinHandle<()>>,
}

#[derive(Clone, Debug, Default)]
pub struct PairTrace {
    /// (number of runnable operations, index chosen) at every decision point
    pub decisions: Vec<(u8, u8)>,
    /// which operation ran, and the site it then parked at ("done" when it finished)
    pub steps: Vec<(u8, &'static str)>,
}

impl Helpers {
    fn new() -> Helpers {
        let sh = Arc::new(Shared {
            m: Mutex::new(St {
                turn: MAIN,
                state: [0; NH],
                site: [""; NH],
                jobs: [None, None, None],
                actors: [None; NH],
                outs: [None, None, None],
                clock: (None, Duration::ZERO),
                critical: false,
                quit: false,
            }),
            cv: Condvar::new(),
        });
        let wh = world::handle();
        // one pool-clock offset for the worker and its helpers, so that a clock step taken on one thread is
        // seen by an operation that is in progress on another
        let clock = Arc::new(std::sync::atomic::AtomicU64::new(0));
        hooks::share_clock_offset(Some(clock.clone()));
        let mut threads = vec![];
        for i in 0..NH {
            let sh2 = sh.clone();
            let wh2 = wh.clone();
            let clock2 = clock.clone();
            threads.push(
                std::thread::Builder::new()
                    .name(format!("conc-helper-{i}"))
                    .spawn(move || helper_main(i, sh2, wh2, clock2))
                    .expect("spawn helper"),
            );
        }
        Helpers { sh, threads }
    }

    /// Run up to `NH` jobs under the schedule `prefix` (then always the first runnable one).
    /// `on_point` is called at every decision point, while all operations are parked.
    fn run_group(&self, jobs: Vec<JobFn>, actors: Vec<Option<Actor>>, prefix: &[u8], on_point: &mut dyn FnMut()) -> Result<(Vec<(JobOut, Vec<hooks::Spawned>)>, PairTrace), String> {
        let mut trace = PairTrace::default();
        let n = jobs.len();
        assert!(n <= NH);
        {
            let mut st = self.sh.m.lock().unwrap();
            st.state = [3; NH];
            st.outs = [None, None, None];
            st.actors = [None; NH];
            for (i, j) in jobs.into_iter().enumerate() {
                st.jobs[i] = Some(j);
                st.actors[i] = actors[i];
                st.state[i] = 1;
            }
            st.clock = hooks::clock_state();
            st.critical = CRITICAL.with(|c| c.get());
            st.turn = MAIN;
        }
        loop {
            let (enabled, unfinished, held): (Vec<usize>, usize, bool) = {
                let st = self.sh.m.lock().unwrap();
                // an operation parked because the mutex is busy cannot go on while the holder is parked
                let held = (0..n).any(|j| st.state[j] == 2 && st.site[j] == "pool mutex held");
                ((0..n).filter(|&i| st.state[i] != 3 && !(held && st.state[i] == 2 && st.site[i] == "pool mutex busy")).collect(), (0..n).filter(|&i| st.state[i] != 3).count(), held)
            };
            if enabled.is_empty() {
                if unfinished > 0 {
                    return Err("every unfinished operation waits for the pool mutex: deadlock".into());
                }
                break;
            }
            if !held {
                on_point(); // (reads the pool tables: not while a parked operation holds the mutex)
            }
            let k = trace.decisions.len();
            let choice = if k < prefix.len() { prefix[k] as usize } else { 0 };
            if choice >= enabled.len() {
                return Err(format!("schedule prefix {prefix:?} is not replayable: decision {k} has {} options", enabled.len()));
            }
            trace.decisions.push((enabled.len() as u8, choice as u8));
            let who = enabled[choice];
            let mut st = self.sh.m.lock().unwrap();
            st.turn = who as u8 + 1;
            self.sh.cv.notify_all();
            let t0 = Instant::now();
            while st.turn != MAIN {
                let (g, to) = self.sh.cv.wait_timeout(st, Duration::from_secs(5)).unwrap();
                st = g;
                if to.timed_out() && t0.elapsed() > Duration::from_secs(60) {
                    return Err(format!("operation {who} did not come back within 60 s (parked at {:?})", st.site));
                }
            }
            let site = if st.state[who] == 3 { "done" } else { st.site[who] };
            trace.steps.push((who as u8, site));
        }
        let mut st = self.sh.m.lock().unwrap();
        let mut outs = vec![];
        for i in 0..n {
            outs.push(st.outs[i].take().ok_or(format!("no result from operation {i}"))?);
        }
        st.state = [0; NH];
        Ok((outs, trace))
    }
}

impl Drop for Helpers {
    fn drop(&mut self) {
        {
            let mut st = self.sh.m.lock().unwrap_or_else(|e| e.into_inner());
            st.quit = true;
            self.sh.cv.notify_all();
        }
        for t in self.threads.drain(..) {
            let _ = t.join();
        }
    }
}

fn helper_main(i: usize, sh: Arc<Shared>, wh: world::WorldHandle, clock: Arc<std::sync::atomic::AtomicU64>) {
    world::install(wh);
    hooks::share_clock_offset(Some(clock));
    crate::det::enter_virtual_runtime();
    hooks::capture_spawns(true);
    let me = i as u8 + 1;
    {
        let sh2 = sh.clone();
        hooks::set_yield_fn(Some(Arc::new(move |site: &'static str| {
            let mut st = sh2.m.lock().unwrap_or_else(|e| e.into_inner());
            if st.state[i] != 4 {
                return; // not inside a job (teardown)
            }
            st.state[i] = 2;
            st.site[i] = site;
            st.turn = MAIN;
            sh2.cv.notify_all();
            while st.turn != me {
                st = sh2.cv.wait(st).unwrap_or_else(|e| e.into_inner());
            }
            st.state[i] = 4;
        })));
    }
    loop {
        let (job, actor, clock) = {
            let mut st = sh.m.lock().unwrap_or_else(|e| e.into_inner());
            loop {
                if st.quit {
                    return;
                }
                if st.turn == me && st.jobs[i].is_some() {
                    break;
                }
                st = sh.cv.wait(st).unwrap_or_else(|e| e.into_inner());
            }
            st.state[i] = 4;
            hooks::set_yield_in_critical_sections(st.critical);
            (st.jobs[i].take().unwrap(), st.actors[i], st.clock)
        };
        hooks::set_clock_state((clock.0, Duration::ZERO));
        let _ = hooks::take_spawned();
        world::set_actor(actor);
        let out = match std::panic::catch_unwind(std::panic::AssertUnwindSafe(job)) {
            Ok(o) => o,
            Err(p) => JobOut::Crashed(panic_text(p)),
        };
        world::set_actor(None);
        let spawned = hooks::take_spawned();
        let mut st = sh.m.lock().unwrap_or_else(|e| e.into_inner());
        st.outs[i] = Some((out, spawned));
        st.state[i] = 3;
        st.turn = MAIN;
        sh.cv.notify_all();
    }
}

fn panic_text(p: Box<dyn std::any::Any + Send>) -> String {
    p.downcast_ref::<&str>().map(|s| s.to_string()).or_else(|| p.downcast_ref::<String>().cloned()).unwrap_or_else(|| "panic".into())
}

thread_local! {
    static HELPERS: RefCell<Option<Helpers>> = const { RefCell::new(None) };
    /// set by the explorer for configurations that also interleave inside critical sections
    static CRITICAL: std::cell::Cell<bool> = const { std::cell::Cell::new(false) };
}

fn with_helpers<R>(f: impl FnOnce(&Helpers) -> R) -> R {
    HELPERS.with(|h| {
        let mut h = h.borrow_mut();
        if h.is_none() {
            *h = Some(Helpers::new());
        }
        f(h.as_ref().unwrap())
    })
}

/// Is `e` a call into the library (an operation a runtime thread executes)?
pub fn is_op(e: Ev) -> bool {
    matches!(e, Ev::Issue { .. } | Ev::Poll(_) | Ev::Cancel(_) | Ev::RunBg(_))
}

/// Is `e` an environment event that can land between two steps of an operation?
pub fn is_env(e: Ev) -> bool {
    matches!(e, Ev::DialOk(_) | Ev::DialFail(_) | Ev::HsOk(_) | Ev::HsFail(_) | Ev::Respond(_) | Ev::ConnReady(_) | Ev::ConnClose(_) | Ev::Upgrade(_) | Ev::Nudge(_) | Ev::Tick(_))
}

fn actor_of(sim: &Sim, e: Ev) -> Actor {
    match e {
        Ev::Issue { .. } => Actor::Req(sim.reqs.len() as u8),
        Ev::Poll(r) | Ev::Cancel(r) => Actor::Req(r),
        Ev::RunBg(t) => Actor::Bg(t),
        _ => Actor::None,
    }
}

impl Sim {
    fn prepare_job(&mut self, e: Ev, pre_snap: &hooks::PoolSnapshot) -> (JobFn, Option<Actor>) {
        match e {
            Ev::Issue { o, h2 } => {
                let r = self.reqs.len() as u8;
                world::with(|w| w.request_h2.push(h2));
                let uri = format!("{}/r{}", self.cfg.origins[o as usize], r);
                let req = http::Request::builder()
                    .uri(uri)
                    .version(if h2 { http::Version::HTTP_2 } else { http::Version::HTTP_11 })
                    .body(Body::empty())
                    .unwrap();
                let avail = self.available_conn(pre_snap, o, h2);
                let origin = world::origin_of(&self.cfg.origins[o as usize].parse().unwrap());
                let h2_exists = if h2 {
                    world::with(|w| w.conns.iter().position(|c| c.h2 && c.open && c.handles > 0 && c.ever_pooled && c.origin == origin))
                } else {
                    None
                };
                let step = world::with(|w| w.step);
                self.reqs.push(Req {
                    origin: o,
                    h2,
                    fut: None,
                    flag: Arc::new(WakeFlag(AtomicBool::new(false), std::sync::atomic::AtomicU64::new(0))),
                    polled: false,
                    outcome: Outcome::Pending,
                    issue_step: step,
                    handoff: None,
                    inbox: None,
                    avail_at_issue: avail,
                    cancelled_step: None,
                    abandoned_dialing: false,
                    is_probe: false,
                    held: None,
                    held_expired: false,
                    recv_handback_step: None,
                    h2_exists_at_issue: h2_exists,
                });
                let mut svc = self.svc.clone();
                (
                    Box::new(move || match std::panic::catch_unwind(std::panic::AssertUnwindSafe(|| svc.call(req))) {
                        Ok(f) => JobOut::Issued(Some(Box::pin(f))),
                        Err(_) => JobOut::Issued(None),
                    }),
                    Some(Actor::Req(r)),
                )
            }
            Ev::Poll(r) => {
                let req = &mut self.reqs[r as usize];
                req.polled = true;
                let mut fut = req.fut.take().expect("poll of a finished request");
                let flag = req.flag.clone();
                (
                    Box::new(move || match Sim::poll_with(fut.as_mut(), &flag) {
                        Err(p) => {
                            drop(fut);
                            JobOut::Polled(None, PollRes::Panic(p))
                        }
                        Ok(Poll::Pending) => JobOut::Polled(Some(fut), PollRes::Pending),
                        Ok(Poll::Ready(out)) => {
                            drop(fut); // drops the exchange (and its Pooled) on this thread
                            match out {
                                Ok(_) => JobOut::Polled(None, PollRes::Ok),
                                Err(e) => JobOut::Polled(None, PollRes::Err(classify_error(&e))),
                            }
                        }
                    }),
                    Some(Actor::Req(r)),
                )
            }
            Ev::Cancel(r) => {
                let step = world::with(|w| w.step);
                let req = &mut self.reqs[r as usize];
                let stage = req.fut.as_ref().map(|f| f.verif_stage()).unwrap_or_default();
                req.abandoned_dialing = stage.contains("inner=connecting");
                let fut = req.fut.take();
                req.outcome = Outcome::Cancelled;
                req.cancelled_step = Some(step);
                (
                    Box::new(move || {
                        drop(fut);
                        JobOut::Cancelled
                    }),
                    Some(Actor::Req(r)),
                )
            }
            Ev::RunBg(t) => {
                let bg = &mut self.bgs[t as usize];
                bg.polled = true;
                let mut task = bg.task.take().expect("run of a finished task");
                let flag = bg.flag.clone();
                (
                    Box::new(move || match Sim::poll_with(task.as_mut(), &flag) {
                        Err(p) => {
                            drop(task);
                            JobOut::Ran(None, PollRes::Panic(p))
                        }
                        Ok(Poll::Pending) => JobOut::Ran(Some(task), PollRes::Pending),
                        Ok(Poll::Ready(())) => {
                            drop(task);
                            JobOut::Ran(None, PollRes::Done)
                        }
                    }),
                    Some(Actor::Bg(t)),
                )
            }
            Ev::Tick(k) => {
                // the clock moves while an operation is in progress (the shared offset makes the step visible to it)
                let q = super::sim::tick_quarters(k);
                self.ticks_used += 1;
                self.clock_half_t += q;
                let d = Duration::from_millis(self.cfg.t_ms * q / 4);
                (
                    Box::new(move || {
                        hooks::advance_clock(d);
                        JobOut::Env
                    }),
                    None,
                )
            }
            e if is_env(e) => (
                Box::new(move || {
                    super::sim::apply_env(e);
                    JobOut::Env
                }),
                None,
            ),
            _ => unreachable!("not an operation"),
        }
    }

    fn finish_job(&mut self, e: Ev, out: JobOut, rep: &mut StepReport) {
        let label = e.text();
        match (e, out) {
            (_, JobOut::Crashed(p)) => {
                self.panicked = Some(p.clone());
                rep.obs.push(format!("{label}: panic {p}"));
            }
            (Ev::Issue { .. }, JobOut::Issued(f)) => {
                if f.is_none() {
                    self.panicked = Some("panic in call".into());
                }
                // the request record was pushed by prepare_job; it is the last one without a future
                // (jobs are finished in group order, the records were pushed in group order: the first record that is
                // still without its future belongs to this job — with two different requests in one group the last
                // one would be the other request's record)
                let idx = self.reqs.iter().position(|r| r.fut.is_none() && r.outcome == Outcome::Pending && !r.polled).expect("issued request record");
                self.reqs[idx].fut = f;
            }
            (Ev::Poll(r), JobOut::Polled(fut, res)) => {
                let req = &mut self.reqs[r as usize];
                req.fut = fut;
                match res {
                    PollRes::Panic(p) => {
                        self.panicked = Some(p.clone());
                        req.outcome = Outcome::Err(format!("panic: {p}"));
                        rep.obs.push(format!("{label}: result panic"));
                    }
                    PollRes::Pending => rep.obs.push(format!("{label}: result pending")),
                    PollRes::Ok => {
                        let h = world::with(|w| w.handoffs.iter().rposition(|h| h.req == r));
                        let c = h.map(|h| world::with(|w| w.handoffs[h].conn)).unwrap_or(usize::MAX);
                        req.outcome = Outcome::Ok(c);
                        rep.obs.push(format!("{label}: result ok(c{c})"));
                    }
                    PollRes::Err(kind) => {
                        req.outcome = Outcome::Err(kind.clone());
                        rep.obs.push(format!("{label}: result err({kind})"));
                    }
                    PollRes::Done => {}
                }
            }
            (Ev::Cancel(_), JobOut::Cancelled) => {}
            (_, JobOut::Env) => {}
            (Ev::RunBg(t), JobOut::Ran(task, res)) => {
                let bg = &mut self.bgs[t as usize];
                bg.task = task;
                match res {
                    PollRes::Panic(p) => {
                        self.panicked = Some(p);
                        rep.obs.push(format!("{label}: result panic"));
                    }
                    PollRes::Pending => rep.obs.push(format!("{label}: result pending")),
                    _ => {
                        rep.obs.push(format!("{label}: result done"));
                        rep.bg_done.push(t);
                    }
                }
            }
            _ => unreachable!("job result does not match its event"),
        }
    }

    /// Execute two operations concurrently under the interleaving `prefix`.
    pub fn apply_pair(&mut self, a: Ev, b: Ev, prefix: &[u8], max_idle_seen: &mut usize) -> Result<(StepReport, PairTrace), String> {
        self.apply_group(&[a, b], prefix, max_idle_seen)
    }

    /// Execute the operations of `group` (two or three) concurrently under the interleaving `prefix`.
    pub fn apply_group(&mut self, group: &[Ev], prefix: &[u8], max_idle_seen: &mut usize) -> Result<(StepReport, PairTrace), String> {
        let mut rep = StepReport::default();
        let pre_snap = std::mem::take(&mut self.snap);
        let (n_dials, n_handoffs, n_conns) = world::with(|w| {
            w.step += 1;
            w.obs.clear();
            w.ready_polls.clear();
            (w.dials.len(), w.handoffs.len(), w.conns.len())
        });
        let mut jobs = vec![];
        let mut actors = vec![];
        for &e in group {
            self.history.push(e);
            let (j, a) = self.prepare_job(e, &pre_snap);
            jobs.push(j);
            actors.push(a);
        }
        let svc = &self.svc;
        let mut on_point = || {
            if let Some(s) = svc.verif_pool_snapshot(&|c: &world::HConn| format!("{}", c.c)) {
                for t in &s.tokens {
                    *max_idle_seen = (*max_idle_seen).max(t.idle.len());
                }
            }
        };
        let actors2 = actors.clone();
        let (outs, trace) = with_helpers(|h| h.run_group(jobs, actors2, prefix, &mut on_point))?;
        let mut spawned_all = vec![];
        for (i, (out, sp)) in outs.into_iter().enumerate() {
            self.finish_job(group[i], out, &mut rep);
            spawned_all.push((actors[i].unwrap_or(Actor::None), sp));
        }
        for (a, sp) in spawned_all {
            self.absorb_spawned(a, sp, &mut rep);
        }
        let post_snap = self.snapshot();
        for &e in group {
            self.track(&pre_snap, &post_snap, e, n_conns, &mut rep);
        }
        rep.new_idle.sort();
        rep.new_idle.dedup();
        world::with(|w| {
            rep.bg_ready_polls = w.ready_polls.iter().filter_map(|(c, a)| if let Actor::Bg(t) = a { Some((*c, *t)) } else { None }).collect();
        });
        self.snap = post_snap;
        world::with(|w| {
            rep.new_dials = (n_dials..w.dials.len()).collect();
            rep.new_handoffs = (n_handoffs..w.handoffs.len()).collect();
            let mut obs = std::mem::take(&mut w.obs);
            obs.extend(std::mem::take(&mut rep.obs));
            rep.obs = obs;
        });
        for &h in &rep.new_handoffs {
            let r = world::with(|w| w.handoffs[h].req);
            self.reqs[r as usize].handoff = Some(h);
            self.reqs[r as usize].inbox = None;
        }
        Ok((rep, trace))
    }
}

/// (property, sub-invariant) pairs whose oracle does not depend on the sequential bookkeeping of
/// the breadth-first engine and therefore applies unchanged to a concurrently executed pair.
fn sound_under_concurrency(v: &Viol) -> bool {
    matches!(
        (v.prop, v.sub),
        ("C02", _)
            | ("C05", "closed-before-issue")
            | ("C05", "closed-before-handback")
            | ("C06", _)
            | ("C15", _)
            | ("C04", "duplicate-h2-dial")
            | ("C04", "dial-while-idle")
            | ("C05", "expired")
            | ("C03", "stranded")
            | ("C03", "probe-blocked")
            | ("C03", "connection-in-limbo")
            | ("C14", "background-connection-lost")
            | ("C14", "released-bypasses-waiting")
            | (_, "panic")
    )
}

#[derive(Default, Clone, Debug)]
pub struct ConcStats {
    pub states: u64,
    pub pairs: u64,
    pub env_pairs: u64,
    pub triples: u64,
    pub interleavings: u64,
    pub max_decision_points: usize,
    pub max_interleavings_of_a_pair: u64,
    pub pairs_with_a_choice: u64,
    pub outcomes_equal_to_a_sequential_state: u64,
    pub concurrency_only_states: u64,
    pub distinct_concurrency_only_states: u64,
    pub drains: u64,
    pub probes: u64,
    pub handoffs_checked: u64,
    pub sites: BTreeSet<&'static str>,
    pub wall_s: f64,
    pub capped: Option<String>,
    pub sample: Option<String>,
}

pub struct ConcFound {
    pub viol: Viol,
    pub hist: Vec<Ev>,
    pub group: Vec<Ev>,
    pub schedule: Vec<u8>,
    pub steps: String,
}

pub struct ConcOutcome {
    pub stats: ConcStats,
    pub found: Vec<ConcFound>,
    pub machinery_error: Option<String>,
}

struct StateResult {
    pairs: u64,
    env_pairs: u64,
    triples: u64,
    interleavings: u64,
    max_points: usize,
    max_inter: u64,
    with_choice: u64,
    seq_equal: u64,
    conc_only: Vec<Fp>,
    drains: u64,
    probes: u64,
    handoffs: u64,
    sites: BTreeSet<&'static str>,
    found: Vec<ConcFound>,
    error: Option<String>,
    sample: Option<String>,
}

fn steps_text(group: &[Ev], t: &PairTrace) -> String {
    t.steps.iter().map(|(w, s)| format!("{}→{}", group[*w as usize].text(), s)).collect::<Vec<_>>().join(", ")
}

fn group_text(group: &[Ev]) -> String {
    group.iter().map(|e| e.text()).collect::<Vec<_>>().join(" || ")
}

/// Run the deterministic continuation from a state that only a concurrent execution reaches.
fn continue_sequentially(sim: &mut Sim, out: &mut Vec<Viol>, drains: &mut u64, probes: &mut u64) {
    *drains += 1;
    // the continuation uses the un-abbreviated alphabet: with the macro step, connection-ready and hand-back
    // steps are not events of their own, and a connection whose request was cancelled in flight would look
    // quiescent while its hand-back task is still waiting to run
    sim.cfg.macro_finish = false;
    sim.draining = true;
    let mut ok = false;
    let mut early_probe_done = false;
    for _ in 0..300 {
        let ob = sim.obligatory();
        let Some(&e) = ob.first() else {
            ok = true;
            break;
        };
        let pre = checks::capture_pre(sim);
        let rep = sim.apply(e);
        out.extend(checks::check_step(&pre, e, &rep, sim).into_iter().filter(sound_under_concurrency));
        // while an HTTP/2 attempt is in flight a further HTTP/2 request must wait for it: the first time the
        // continuation sees such an attempt, a fresh HTTP/2 request for its origin is issued and polled once
        if !early_probe_done && sim.cfg.allow_h2 {
            let pending = world::with(|w| w.dials.iter().find(|d| d.owner_h2 && !d.dropped && checks::dial_pending(d.stage)).map(|d| d.origin.clone()));
            if let Some(origin) = pending {
                if let Some(o) = sim.cfg.origins.iter().position(|u| world::origin_of(&u.parse().unwrap()) == origin) {
                    early_probe_done = true;
                    *probes += 1;
                    let p = sim.issue_probe(o as u8, true);
                    let pre = checks::capture_pre(sim);
                    let e = Ev::Poll(p);
                    if sim.enabled().contains(&e) {
                        let rep = sim.apply(e);
                        out.extend(checks::check_step(&pre, e, &rep, sim).into_iter().filter(sound_under_concurrency));
                    }
                }
            }
        }
    }
    sim.draining = false;
    if !ok {
        out.push(Viol { prop: "C03", sub: "stranded", msg: "the run to quiescence after the concurrent pair does not terminate".into() });
        return;
    }
    out.extend(checks::check_quiescent(sim).into_iter().filter(sound_under_concurrency));
    // nothing alive may be unreachable: at quiescence every live connection handle is an idle entry
    let limbo = sim.limbo_conns(&sim.snap);
    for c in limbo {
        let (open, h2) = world::with(|w| (w.conns[c].open, w.conns[c].h2));
        if open {
            out.push(Viol {
                prop: "C03",
                sub: "connection-in-limbo",
                msg: format!("at quiescence open c{c} (h2={h2}) is alive but neither idle in the pool nor held by a request: it sits where nobody will ever look"),
            });
        }
    }
    let origins_used: BTreeSet<u8> = sim.reqs.iter().map(|r| r.origin).collect();
    for o in origins_used {
        for h2 in [false, true] {
            if (h2 && !sim.cfg.allow_h2) || (!h2 && !sim.cfg.allow_h1) {
                continue;
            }
            *probes += 1;
            let p = sim.issue_probe(o, h2);
            let done = sim.drain(300);
            if !done || !matches!(sim.reqs[p as usize].outcome, Outcome::Ok(_)) {
                out.push(Viol {
                    prop: "C03",
                    sub: "probe-blocked",
                    msg: format!("a fresh {} request to origin o{o} issued after the concurrent pair does not complete: {:?}", if h2 { "HTTP/2" } else { "HTTP/1.1" }, sim.reqs[p as usize].outcome),
                });
                return;
            }
        }
    }
}

fn explore_state(cfg: &SimConfig, hist: &[Ev], seq_fps: &HashSet<Fp>, props: &[&'static str], triples: bool) -> StateResult {
    let mut res = StateResult {
        pairs: 0,
        env_pairs: 0,
        triples: 0,
        interleavings: 0,
        max_points: 0,
        max_inter: 0,
        with_choice: 0,
        seq_equal: 0,
        conc_only: vec![],
        drains: 0,
        probes: 0,
        handoffs: 0,
        sites: BTreeSet::new(),
        found: vec![],
        error: None,
        sample: None,
    };
    CRITICAL.with(|c| c.set(cfg.name.contains("held-yields")));
    let issued_now = Sim::replay(cfg, hist).reqs.iter().filter(|r| !r.is_probe).count();
    let ops: Vec<(Ev, Actor)> = {
        let sim = Sim::replay(cfg, hist);
        sim.enabled().into_iter().filter(|e| is_op(*e)).map(|e| (e, actor_of(&sim, e))).collect()
    };
    let (envs, n_conns_now): (Vec<Ev>, u8) = {
        let sim = Sim::replay(cfg, hist);
        (sim.enabled().into_iter().filter(|e| is_env(*e)).collect(), world::with(|w| w.conns.len()) as u8)
    };
    // operation || operation, then operation || environment event (the event is one atomic step that can land
    // between any two steps of the operation)
    let mut pairs: Vec<(Ev, Ev)> = vec![];
    for i in 0..ops.len() {
        for j in (i + 1)..ops.len() {
            let (a, aa) = ops[i];
            let (b, ab) = ops[j];
            let both_issue = matches!(a, Ev::Issue { .. }) && matches!(b, Ev::Issue { .. });
            if aa == ab && !both_issue {
                continue; // one future cannot be polled and dropped at once
            }
            if both_issue && issued_now + 2 > cfg.max_requests {
                continue; // no budget for two more requests
            }
            // (two `call`s are each one critical section on the unmodified code — two interleavings — but that
            // is a fact about the code, not a reason to skip the pair)
            pairs.push((a, b));
        }
    }
    // two requests of the same kind (same origin, same version) issued at the same time
    for &(a, _) in &ops {
        if matches!(a, Ev::Issue { .. }) && issued_now + 2 <= cfg.max_requests {
            pairs.push((a, a));
        }
    }
    for &(a, _) in &ops {
        for &x in &envs {
            pairs.push((a, x));
        }
    }
    let mut groups: Vec<Vec<Ev>> = pairs.into_iter().map(|(a, b)| vec![a, b]).collect();
    if cfg.name.contains("env-triples") {
        // two overlapping operations AND an environment event that lands anywhere between their segments
        for i in 0..ops.len() {
            for j in (i + 1)..ops.len() {
                if ops[i].1 == ops[j].1 || matches!(ops[i].0, Ev::Issue { .. }) || matches!(ops[j].0, Ev::Issue { .. }) {
                    continue;
                }
                for &x in &envs {
                    if matches!(x, Ev::ConnClose(_)) {
                        groups.push(vec![ops[i].0, ops[j].0, x]);
                    }
                }
            }
        }
    }
    if cfg.ev_close && cfg.name.contains("fresh-close") {
        // a connection that an operation creates and registers can be closed by its peer, and another request
        // can arrive, before the same operation reaches its next critical section (the check-out that completed
        // is dropped only after the inner service has been called): operation || close of the connection it
        // is about to create || a new request
        let fresh = Ev::ConnClose(n_conns_now);
        for &(a, _) in &ops {
            if !matches!(a, Ev::Poll(_) | Ev::RunBg(_)) {
                continue;
            }
            groups.push(vec![a, fresh]);
            if issued_now + 1 <= cfg.max_requests {
                for &(b, _) in &ops {
                    if matches!(b, Ev::Issue { .. }) {
                        groups.push(vec![a, fresh, b]);
                    }
                }
            }
        }
    }
    if triples {
        // three overlapping operations of three different actors
        for i in 0..ops.len() {
            for j in (i + 1)..ops.len() {
                for k in (j + 1)..ops.len() {
                    let n_issue = [ops[i].0, ops[j].0, ops[k].0].iter().filter(|e| matches!(e, Ev::Issue { .. })).count();
                    if n_issue > 1 || ops[i].1 == ops[j].1 || ops[i].1 == ops[k].1 || ops[j].1 == ops[k].1 {
                        continue;
                    }
                    groups.push(vec![ops[i].0, ops[j].0, ops[k].0]);
                }
            }
        }
    }
    {
        for group in groups {
            let (a, b) = (group[0], group[1]);
            if is_env(b) {
                res.env_pairs += 1;
            }
            if group.len() == 3 {
                res.triples += 1;
            }
            res.pairs += 1;
            let mut stack: Vec<Vec<u8>> = vec![vec![]];
            let mut n_inter = 0u64;
            while let Some(prefix) = stack.pop() {
                // the watchdog times ONE interleaving (a state can have thousands of them, and a baton hand-over costs a
                // scheduler round trip when the machine is oversubscribed)
                crate::evidence::watchdog::touch();
                let mut sim = Sim::replay(cfg, hist);
                let pre = checks::capture_pre(&sim);
                let pre_ages: Vec<(usize, Duration)> = sim.snap.tokens.iter().flat_map(|t| t.idle.iter()).filter_map(|i| i.conn.parse::<usize>().ok().map(|c| (c, i.age))).collect();
                let mut max_idle_seen = 0usize;
                for r in sim.reqs.iter() {
                    r.flag.1.store(0, Ordering::SeqCst);
                }
                let group_start_seq = super::sim::next_seq();
                let (rep, trace) = match sim.apply_group(&group, &prefix, &mut max_idle_seen) {
                    Ok(x) => x,
                    Err(m) => {
                        res.error = Some(format!("{m} — after [{}] group ({})", hist_text(hist), group_text(&group)));
                        return res;
                    }
                };
                n_inter += 1;
                res.max_points = res.max_points.max(trace.decisions.len());
                for (_, s) in &trace.steps {
                    res.sites.insert(s);
                }
                for k in prefix.len()..trace.decisions.len() {
                    if trace.decisions[k].1 == 0 {
                        for alt in 1..trace.decisions[k].0 {
                            let mut p: Vec<u8> = trace.decisions[..k].iter().map(|d| d.1).collect();
                            p.push(alt);
                            stack.push(p);
                        }
                    }
                }
                res.handoffs += rep.new_handoffs.len() as u64;
                // oracles on the pair itself (e = Tick: none of the event-specific clauses applies)
                let mut viols: Vec<Viol> = checks::check_step(&pre, Ev::Tick(0), &rep, &sim).into_iter().filter(sound_under_concurrency).collect();
                // a cancellation inside the group: the healthy pooled connection the request held (popped for it, or
                // delivered to its channel) and never used must survive — whatever else ran at the same time
                for &g in &group {
                    if let Ev::Cancel(r) = g {
                        if !pre.handed[r as usize] && sim.snap.max_idle_per_host >= 4 {
                            for c in [pre.held[r as usize], pre.inbox[r as usize]].into_iter().flatten() {
                                let destroyed = world::with(|w| c != usize::MAX && pre.conn_open[c] && w.conns[c].open && !w.conns[c].busy && w.conns[c].handles == 0);
                                if destroyed {
                                    viols.push(Viol { prop: "C04", sub: "cancel-destroys-idle", msg: format!("cancelling r{r} before it used a connection destroyed healthy pooled c{c} (another operation was in progress at the same time)") });
                                }
                            }
                        }
                    }
                }
                // a connection the peer closed inside this step and that was delivered to a waiting request AFTER the
                // close (the request's first wake-up of the step comes later than the close): it was handed back, or
                // handed on, without being looked at
                for (ri, r) in sim.reqs.iter().enumerate() {
                    if r.fut.is_none() {
                        continue;
                    }
                    if let Some(c) = r.inbox {
                        if pre.inbox.get(ri).copied().flatten() == Some(c) {
                            continue;
                        }
                        let woke = r.flag.1.load(Ordering::SeqCst);
                        let closed = world::with(|w| w.conns.get(c).and_then(|cs| cs.close_seq));
                        if let Some(cs) = closed {
                            if woke != 0 && cs > group_start_seq && cs < woke {
                                viols.push(Viol { prop: "C05", sub: "closed-before-handback", msg: format!("c{c} was closed by its peer and only then delivered to waiting r{ri} (close at sequence {cs}, the request was first woken at {woke})") });
                            }
                        }
                    }
                }
                if max_idle_seen > sim.snap.max_idle_per_host {
                    viols.push(Viol {
                        prop: "C15",
                        sub: "idle-bound",
                        msg: format!("{max_idle_seen} idle connections retained for one origin while the two operations were in progress, max_idle_per_host={}", sim.snap.max_idle_per_host),
                    });
                }
                // Issue || Tick: when the clock step lands before the first lock acquisition of the check-out, the
                // idle entry it takes was judged after the step: it must not be older than the timeout by then
                if let (2, Ev::Issue { .. }, Ev::Tick(k)) = (group.len(), a, b) {
                    let tick_pos = trace.steps.iter().position(|(w, _)| *w == 1);
                    let issue_steps: Vec<usize> = trace.steps.iter().enumerate().filter(|(_, (w, _))| *w == 0).map(|(i, _)| i).collect();
                    if let (Some(tp), true) = (tick_pos, issue_steps.len() >= 2) {
                        if tp < issue_steps[1] {
                            if let (Some(r), Some(t)) = (sim.reqs.last(), sim.cfg.idle_timeout.filter(|t| *t > 0)) {
                                if let Some(c) = r.held {
                                    let pre_age = pre_ages.iter().find(|(id, _)| *id == c).map(|(_, a)| *a);
                                    let step = Duration::from_millis(sim.cfg.t_ms * super::sim::tick_quarters(k) / 4);
                                    if let Some(age) = pre_age {
                                        if age + step > Duration::from_millis(t * sim.cfg.t_ms) {
                                            viols.push(Viol { prop: "C05", sub: "expired", msg: format!("the clock moved by {step:?} before the check-out took the pool lock, yet it was given c{c}, idle for {:?} by then (idle timeout {:?})", age + step, Duration::from_millis(t * sim.cfg.t_ms)) });
                                        }
                                    }
                                }
                            }
                        }
                    }
                }
                // operation || peer close: when the close lands right after the operation's first segment, which
                // ended in front of the pool lock, every hand-back the operation makes (into the idle list or to a
                // waiter) comes after the close. The sequential oracle orders close and hand-back by step number;
                // inside one concurrent step that order is given by the interleaving, so it is recorded here.
                if let (2, Ev::ConnClose(c) | Ev::Upgrade(c)) = (group.len(), b) {
                    let c = c as usize;
                    let op_steps: Vec<usize> = trace.steps.iter().enumerate().filter(|(_, (w, _))| *w == 0).map(|(i, _)| i).collect();
                    let env_pos = trace.steps.iter().position(|(w, _)| *w == 1);
                    let first_park = op_steps.first().map(|&i| trace.steps[i].1);
                    if let (Some(ep), true, Some("pool mutex")) = (env_pos, op_steps.len() >= 2, first_park) {
                        if ep == op_steps[0] + 1 {
                            let handed_back = rep.new_idle.contains(&c) || sim.reqs.iter().any(|r| r.fut.is_some() && r.inbox == Some(c));
                            if handed_back {
                                let step = world::with(|w| {
                                    w.step += 1;
                                    w.conns[c].last_handback_step = Some(w.step);
                                    w.step
                                });
                                for r in sim.reqs.iter_mut() {
                                    if r.inbox == Some(c) {
                                        r.recv_handback_step = Some(step);
                                    }
                                }
                            }
                        }
                    }
                }
                let fp = fp_of(&canon(&sim));
                if viols.is_empty() {
                    if seq_fps.contains(&fp) {
                        res.seq_equal += 1;
                    } else {
                        res.conc_only.push(fp);
                        if res.sample.is_none() {
                            res.sample = Some(format!("after [{}]: {} interleaved as {}", hist_text(hist), group_text(&group), steps_text(&group, &trace)));
                        }
                        continue_sequentially(&mut sim, &mut viols, &mut res.drains, &mut res.probes);
                    }
                }
                for vv in viols {
                    if props.contains(&vv.prop) || vv.sub == "panic" && props.iter().any(|p| *p == vv.prop) {
                        if !res.found.iter().any(|f| f.viol.prop == vv.prop && f.viol.sub == vv.sub) {
                            res.found.push(ConcFound {
                                viol: vv,
                                hist: hist.to_vec(),
                                group: group.clone(),
                                schedule: trace.decisions.iter().map(|d| d.1).collect(),
                                steps: steps_text(&group, &trace),
                            });
                        }
                    }
                }
            }
            res.interleavings += n_inter;
            res.max_inter = res.max_inter.max(n_inter);
            if n_inter > 2 {
                res.with_choice += 1;
            }
        }
    }
    res
}

/// All pairs × all interleavings from every state of the sequential graph of `cfg`.
pub fn explore(cfg: &SimConfig, props: &[&'static str], max_wall_s: f64) -> ConcOutcome {
    let t0 = Instant::now();
    let mut stats = ConcStats::default();
    // 1. the sequential state graph (no oracles here: the property's own search evaluates those)
    let opts = bfs::Opts {
        props: vec![],
        probe_closure: false,
        spurious_probe: false,
        audit_every: u64::MAX,
        max_states: 3_000_000,
        max_wall_s,
        collect_states: true,
    };
    let seq = bfs::explore(cfg, &opts);
    let seq_fps = seq.fps;
    let reps = seq.reps;
    stats.states = reps.len() as u64;
    // 2. every state, every pair, every interleaving
    let threads = n_threads();
    let chunk = ((reps.len() + threads * 16 - 1) / (threads * 16)).max(1);
    let chunks: Vec<&[(Fp, Vec<Ev>)]> = reps.chunks(chunk).collect();
    let deadline = t0 + Duration::from_secs_f64(max_wall_s);
    let skipped = std::sync::atomic::AtomicU64::new(0);
    let results: Vec<Vec<StateResult>> = par_map(chunks.len(), threads, |ci| {
        let mut v = vec![];
        for (_, h) in chunks[ci] {
            if Instant::now() > deadline {
                skipped.fetch_add(1, Ordering::Relaxed);
                continue;
            }
            let _g = {
                let (c, hh) = (cfg.clone(), h.clone());
                crate::evidence::watchdog::enter(move || super::replay_json(&c, &hh))
            };
            v.push(explore_state(cfg, h, &seq_fps, props, cfg.name.contains("triples")));
        }
        v
    });
    let mut found: BTreeMap<(&'static str, &'static str), ConcFound> = BTreeMap::new();
    let mut conc_only: HashSet<Fp> = HashSet::new();
    let mut machinery_error = None;
    for rs in results {
        for r in rs {
            stats.pairs += r.pairs;
            stats.env_pairs += r.env_pairs;
            stats.triples += r.triples;
            stats.interleavings += r.interleavings;
            stats.max_decision_points = stats.max_decision_points.max(r.max_points);
            stats.max_interleavings_of_a_pair = stats.max_interleavings_of_a_pair.max(r.max_inter);
            stats.pairs_with_a_choice += r.with_choice;
            stats.outcomes_equal_to_a_sequential_state += r.seq_equal;
            stats.concurrency_only_states += r.conc_only.len() as u64;
            conc_only.extend(r.conc_only);
            stats.drains += r.drains;
            stats.probes += r.probes;
            stats.handoffs_checked += r.handoffs;
            stats.sites.extend(r.sites);
            if stats.sample.is_none() {
                stats.sample = r.sample;
            }
            if machinery_error.is_none() {
                machinery_error = r.error;
            }
            for f in r.found {
                let key = (f.viol.prop, f.viol.sub);
                match found.get(&key) {
                    Some(cur) if (cur.hist.len(), &cur.hist) <= (f.hist.len(), &f.hist) => {}
                    _ => {
                        found.insert(key, f);
                    }
                }
            }
        }
    }
    stats.distinct_concurrency_only_states = conc_only.len() as u64;
    let sk = skipped.load(Ordering::Relaxed);
    if sk > 0 {
        stats.capped = Some(format!("wall cap {max_wall_s:.0}s: {sk} of {} states were not paired", reps.len()));
    }
    if let Some(c) = seq.stats.capped {
        stats.capped = Some(format!("sequential graph capped: {c}"));
    }
    stats.wall_s = t0.elapsed().as_secs_f64();
    ConcOutcome { stats, found: found.into_values().collect(), machinery_error }
}

/// Replay one recorded concurrent witness.
pub fn replay(cfg: &SimConfig, hist: &[Ev], group: &[Ev], schedule: &[u8]) -> Result<(Vec<Viol>, String), String> {
    CRITICAL.with(|c| c.set(cfg.name.contains("held-yields")));
    let mut sim = Sim::replay(cfg, hist);
    let pre = checks::capture_pre(&sim);
    let mut max_idle_seen = 0usize;
    let (rep, trace) = sim.apply_group(group, schedule, &mut max_idle_seen)?;
    let mut viols: Vec<Viol> = checks::check_step(&pre, Ev::Tick(0), &rep, &sim).into_iter().filter(sound_under_concurrency).collect();
    if max_idle_seen > sim.snap.max_idle_per_host {
        viols.push(Viol { prop: "C15", sub: "idle-bound", msg: format!("{max_idle_seen} idle connections for one origin during the overlap, max_idle_per_host={}", sim.snap.max_idle_per_host) });
    }
    let mut log = format!("{}: {}\n  {}", group_text(group), steps_text(group, &trace), rep.obs.join("; "));
    if viols.is_empty() {
        let (mut d, mut p) = (0, 0);
        continue_sequentially(&mut sim, &mut viols, &mut d, &mut p);
        log.push_str(&format!("\n  continued to quiescence: [{}]", hist_text(&sim.history)));
    }
    Ok((viols, log))
}
