//! E1 `poolmc` — explicit-state search over the real connection pool (C02–C06, C14, C15, C19 part 2).

pub mod bfs;
pub mod checks;
pub mod conc;
pub mod sim;
pub mod world;

use crate::evidence::{Args, Run};
use bfs::{explore, Opts};
use serde_json::json;
use sim::{hist_text, Ev, Sim, SimConfig};

fn origins(names: &[&str]) -> Vec<String> {
    names.iter().map(|s| s.to_string()).collect()
}

/// The configurations searched for one property at one tier.
pub fn configs(prop: &str, thorough: bool) -> Vec<SimConfig> {
    let mut v = vec![];
    let full = |name: &str, n: usize, preempt: bool| {
        let mut c = SimConfig::base(name);
        c.max_requests = n;
        c.continue_after_preemption = preempt;
        c
    };
    match prop {
        "C15" => {
            let k = if thorough { 4 } else { 3 };
            let mut bounds = vec![0usize, 1, 2, k - 1, k, k + 1];
            bounds.sort();
            bounds.dedup();
            for m in bounds {
                // bursts of k concurrent HTTP/1.1 requests to one origin, all release orders.
                // Fine-grained release steps (respond / poll / ready / hand-back task interleaved) for
                // k=3 (quick: only for the bound 1, the others use the macro release step);
                // k=4 always uses the macro release step.
                let fine = k == 3 && (thorough || m == 1);
                let mut c = SimConfig::base(&format!("burst-k{k}-max{m}{}", if fine { "" } else { "-macro" }));
                c.max_requests = k;
                c.allow_h2 = false;
                c.max_idle_per_host = m;
                c.ev_cancel = false;
                c.ev_dial_fail = false;
                c.ev_close = false;
                c.burst = true;
                c.macro_finish = !fine;
                if k == 4 {
                    c.max_depth = Some(20);
                }
                v.push(c);
            }
            if thorough {
                for m in [0usize, 1, 2, 3, 4] {
                    let mut c = SimConfig::base(&format!("burst-k3-max{m}"));
                    c.max_requests = 3;
                    c.allow_h2 = false;
                    c.max_idle_per_host = m;
                    c.ev_cancel = false;
                    c.ev_dial_fail = false;
                    c.ev_close = false;
                    c.burst = true;
                    v.push(c);
                }
            }
            // peers closing some idle connections
            let mut c = SimConfig::base("burst-k2-max1-close");
            c.max_requests = 2;
            c.allow_h2 = false;
            c.max_idle_per_host = 1;
            c.burst = true;
            v.push(c);
            // a request that took an idle connection and is cancelled unpolled while releases refill the list
            for m in [1usize, 2] {
                let mut c = SimConfig::base(&format!("n3-macro-cancel-max{m}"));
                c.max_requests = 3;
                c.allow_h2 = false;
                c.max_idle_per_host = m;
                c.ev_dial_fail = false;
                c.ev_close = false;
                c.macro_finish = true;
                c.max_depth = Some(if thorough { 18 } else { 13 });
                v.push(c);
            }
            // three requests over two origins with completed exchanges (macro step): one origin's connections
            // all in use while the other origin is seen for the first time, then released and used again
            let mut c = full("n3-macro-two-origins-max1", 3, true);
            c.max_idle_per_host = 1;
            c.origins = origins(&["http://a", "http://b"]);
            c.allow_h2 = false;
            c.ev_dial_fail = false;
            c.ev_close = false;
            c.ev_cancel = false;
            c.macro_finish = true;
            c.max_depth = Some(if thorough { 16 } else { 12 });
            v.push(c);
            // mixed protocols, two origins, full alphabet, small bound
            let mut c = full("mixed-n2-max1", 2, true);
            c.max_idle_per_host = 1;
            c.origins = origins(&["http://a", "http://b"]);
            v.push(c);
            if thorough {
                let mut c = SimConfig::base("burst-k3-max1-close");
                c.max_requests = 3;
                c.allow_h2 = false;
                c.max_idle_per_host = 1;
                c.ev_cancel = false;
                c.ev_dial_fail = false;
                c.burst = true;
                v.push(c);
                let mut c = full("mixed-n3-max1", 3, true);
                c.max_idle_per_host = 1;
                c.ev_dial_fail = false;
                c.ev_close = false;
                c.max_depth = Some(16);
                v.push(c);
            }
        }
        "C06" => {
            for (name, os) in [
                ("scheme", vec!["http://a", "https://a"]),
                ("port", vec!["http://a", "http://a:8080"]),
                ("case-host", vec!["http://a", "http://A"]),
                ("host", vec!["http://a", "http://b"]),
                ("upper-case-ports", vec!["http://A:8080", "http://A:9090"]),
                ("upper-case-default-port", vec!["http://A", "http://A:8080"]),
                // schemes the transport treats alike (plain: http/ws, TLS: https/wss) are still different origins
                ("ws-vs-http", vec!["ws://a:8080", "http://a:8080"]),
                ("wss-vs-http", vec!["wss://a:8443", "http://a:8443"]),
                ("wss-vs-https", vec!["wss://a", "https://a"]),
                // an explicit port that is ANOTHER scheme's default is not this scheme's default
                ("http-443-vs-default", vec!["http://a:443", "http://a"]),
                ("https-80-vs-default", vec!["https://a:80", "https://a"]),
                ("ws-443-vs-default", vec!["ws://a:443", "ws://a"]),
            ] {
                let mut c = full(&format!("n2-{name}"), 2, true);
                c.origins = origins(&os);
                // the state graphs of the menus are isomorphic as long as the two keys are distinct (identical
                // counts); a key collision shows within a few events. Quick tier: two menus to fixpoint, the
                // others to depth 12; thorough: all to fixpoint.
                if !thorough && name != "scheme" && name != "host" {
                    c.max_depth = Some(if name.ends_with("-vs-default") { 9 } else { 12 });
                }
                v.push(c.clone());
                if thorough || name == "scheme" {
                    let mut c3 = c.clone();
                    c3.max_depth = None;
                    c3.name = format!("n3-{name}-slice");
                    c3.max_requests = 3;
                    c3.ev_close = false;
                    c3.ev_dial_fail = false;
                    c3.ev_cancel = thorough;
                    // the state graphs of the six menus are isomorphic whenever the keys are distinct (same counts);
                    // two of them go to the deeper bound
                    c3.max_depth = Some(if thorough { if name == "scheme" || name == "upper-case-ports" { 16 } else { 14 } } else { 13 });
                    v.push(c3);
                }
            }
            // histories in which one origin's connection has been idle, is checked out again and is
            // released while another origin's request is waiting: request completion abbreviated to one
            // macro step so that three requests over two origins fit the depth bound
            for (name, os) in [("host", vec!["http://a", "http://b"]), ("scheme", vec!["http://a", "https://a"])] {
                if name == "scheme" && !thorough {
                    continue;
                }
                let mut c = full(&format!("n3-macro-{name}"), 3, true);
                c.origins = origins(&os);
                c.allow_h2 = thorough;
                c.ev_close = false;
                c.ev_dial_fail = false;
                c.ev_cancel = thorough;
                c.macro_finish = true;
                c.max_depth = Some(if thorough { 16 } else { 13 });
                v.push(c);
            }
            let mut c = full("n3-three-origins", 3, true);
            c.origins = origins(&["http://a", "https://a", "http://a:8080"]);
            c.ev_dial_fail = false;
            c.ev_close = false;
            c.ev_cancel = false;
            c.max_depth = Some(if thorough { 16 } else { 11 });
            v.push(c);
        }
        "C01" => {
            // pool level of C01's last sentence: histories in which nothing breaks and nothing is cancelled
            for preempt in [true, false] {
                for h1_only in [false, true] {
                    let mut c = full(&format!("n3-nothing-breaks-preempt-{preempt}{}", if h1_only { "-h1-only-protocol" } else { "" }), 3, preempt);
                    c.ev_cancel = false;
                    c.ev_dial_fail = false;
                    c.ev_close = false;
                    c.h1_only_protocol = h1_only;
                    c.macro_finish = true;
                    c.max_depth = Some(if thorough { 20 } else { 14 });
                    v.push(c);
                }
            }
        }
        "C05" => {
            for it in [None, Some(0u64), Some(1)] {
                let mut c = full(&format!("n2-timeout-{it:?}"), 2, true);
                c.idle_timeout = it;
                c.max_ticks = 2;
                v.push(c);
            }
            // the same with a sub-second time unit (T = 500 ms): idle timeouts below one second
            let mut c = full("n2-timeout-subsecond", 2, true);
            c.idle_timeout = Some(1);
            c.t_ms = 500;
            c.max_ticks = 2;
            c.allow_h2 = false;
            c.ev_cancel = false;
            c.ev_dial_fail = false;
            v.push(c);
            let mut c = full("n3-close-tick-slice", 3, true);
            c.idle_timeout = Some(1);
            c.max_ticks = if thorough { 2 } else { 1 };
            c.ev_cancel = false;
            c.ev_dial_fail = false;
            c.allow_h2 = thorough;
            c.max_depth = Some(if thorough { 18 } else { 14 });
            v.push(c);
            let mut c = full("n2-lax-is-open", 2, true);
            c.strict_is_open = false;
            c.idle_timeout = Some(1);
            c.max_ticks = 1;
            v.push(c);
            // several idle entries of different ages with some of them closed: request completion is
            // abbreviated to one macro step so that these histories are shallow
            // a connection taken from the idle list by a request that is cancelled before its first
            // poll, closed by the peer in between, with another request waiting: cancel and close
            // together at N=3, request completion as one macro step, no clock
            let mut c = full("n3-macro-cancel-close", 3, true);
            c.idle_timeout = None;
            c.max_ticks = 0;
            c.allow_h2 = false;
            c.ev_dial_fail = false;
            c.macro_finish = true;
            c.max_depth = Some(if thorough { 16 } else { 13 });
            v.push(c);
            // the search starts with two idle connections of the same age (two concurrent requests have
            // completed); two further requests, peer closes, cancellations and up to two ticks out of
            // {T/2, 3T/4, 2T}, so that a check-out can happen strictly between T and 3T/2
            let mut c = full("two-idle-then-n2-fine-ticks", 4, true);
            c.prelude = ["Issue(o0,h1)", "Issue(o0,h1)", "Poll(r0)", "Poll(r1)", "DialOk(d0)", "DialOk(d1)", "Poll(r0)", "Poll(r1)", "Finish(r0)", "Finish(r1)"].iter().map(|s| s.to_string()).collect();
            c.idle_timeout = Some(1);
            c.max_ticks = 2;
            c.fine_ticks = true;
            c.allow_h2 = false;
            c.ev_dial_fail = false;
            c.max_depth = Some(if thorough { 13 } else { 9 });
            v.push(c);
            let mut c = full("n3-macro-idle-ages", 3, true);
            c.idle_timeout = Some(1);
            c.max_ticks = 2;
            c.allow_h2 = false;
            c.ev_cancel = false;
            c.ev_dial_fail = false;
            c.macro_finish = true;
            c.max_depth = Some(if thorough { 19 } else { 15 });
            v.push(c);
            if thorough {
                let mut c = full("n4-macro-idle-ages", 4, true);
                c.idle_timeout = Some(1);
                c.max_ticks = 2;
                c.allow_h2 = false;
                c.ev_cancel = false;
                c.ev_dial_fail = false;
                c.macro_finish = true;
                c.max_depth = Some(16);
                v.push(c);
                let mut c = full("n2-preempt-false-ticks", 2, false);
                c.idle_timeout = Some(1);
                c.max_ticks = 2;
                v.push(c);
            }
        }
        "C02" | "C03" | "C04" | "C14" | "C19" => {
            for preempt in [true, false] {
                v.push(full(&format!("n2-full-preempt-{preempt}"), 2, preempt));
            }
            for preempt in [true, false] {
                let mut c = full(&format!("n2-split-handshake-preempt-{preempt}"), 2, preempt);
                c.split_handshake = true;
                v.push(c);
            }
            if prop == "C02" {
                let mut c = full("n2-upgrade", 2, true);
                c.ev_upgrade = true;
                c.allow_h2 = false;
                v.push(c);
                let mut c = full("n2-lax-is-open", 2, true);
                c.strict_is_open = false;
                v.push(c);
                // an inner service that polls the connection for readiness before it sends (tower's contract),
                // with both is_open flavours
                let mut c = full("n2-lax-is-open-exec-polls-ready", 2, true);
                c.strict_is_open = false;
                c.exec_polls_ready = true;
                c.allow_h2 = false;
                v.push(c);
                let mut c = full("n2-exec-polls-ready", 2, true);
                c.exec_polls_ready = true;
                v.push(c);
                // spurious wake-ups of the hand-back task while the connection is still busy
                let mut c = full("n2-lax-is-open-spurious-wakes", 2, true);
                c.strict_is_open = false;
                c.ev_nudge = true;
                c.allow_h2 = false;
                v.push(c);
                // nothing may be kept idle: a released connection either goes to a waiter (once ready) or is closed
                let mut c = full("n2-lax-is-open-max0", 2, true);
                c.strict_is_open = false;
                c.max_idle_per_host = 0;
                c.allow_h2 = false;
                v.push(c);
                // the same with an idle timeout and the clock moving (virtual tokio time moves with it)
                let mut c = full("n2-lax-is-open-ticks", 2, true);
                c.strict_is_open = false;
                c.idle_timeout = Some(1);
                c.max_ticks = 1;
                c.allow_h2 = false;
                v.push(c);
            }
            if prop != "C03" && prop != "C19" || thorough {
                let mut c = full("n2-two-origins", 2, true);
                c.origins = origins(&["http://a", "http://b"]);
                v.push(c);
            }
            // N=3: every history up to a depth bound, on a property-specific slice of the alphabet
            for preempt in [true, false] {
                let mut c = full(&format!("n3-slice-preempt-{preempt}"), 3, preempt);
                match prop {
                    "C02" => {
                        c.ev_dial_fail = false;
                        c.ev_cancel = false;
                    }
                    "C03" | "C19" => {
                        c.ev_close = false;
                    }
                    _ => {
                        c.ev_dial_fail = false;
                        c.ev_close = false;
                    }
                }
                c.max_depth = Some(match (prop, thorough) {
                    ("C03" | "C19", false) => 13,
                    ("C03" | "C19", true) => 17,
                    (_, false) => 13,
                    (_, true) => 18,
                });
                v.push(c);
            }
            if prop == "C03" || prop == "C19" || prop == "C14" {
                // a pool that keeps nothing idle (max_idle_per_host = 0, a legal corner): whoever waits for an
                // attempt or for a released connection is still served
                let mut c = full("n2-max-idle-0", 2, true);
                c.max_idle_per_host = 0;
                v.push(c);
            }
            if prop == "C03" || prop == "C19" || prop == "C04" {
                // mixed H1/H2 histories with completed exchanges (macro step) so that hand-backs during
                // an in-flight HTTP/2 attempt, followed by its failure or cancellation, are within reach
                for preempt in [true, false] {
                    let mut c = full(&format!("n3-macro-preempt-{preempt}"), 3, preempt);
                    c.macro_finish = true;
                    c.max_depth = Some(if thorough { if prop == "C04" { 17 } else { 18 } } else { 13 });
                    v.push(c);
                }
            }
            if thorough {
                for preempt in [true, false] {
                    let mut c = full(&format!("n3-full-preempt-{preempt}"), 3, preempt);
                    c.max_depth = Some(if prop == "C03" || prop == "C19" { 14 } else { 15 });
                    v.push(c);
                }
                let mut c = full("n4-h2-only-slice", 4, true);
                c.allow_h1 = false;
                c.ev_close = false;
                c.max_depth = Some(15);
                v.push(c);
            }
        }
        _ => {}
    }
    v
}

/// Configurations whose every state is paired by the interleaving engine (all are searched to fixpoint).
pub fn conc_configs(prop: &str, thorough: bool) -> Vec<SimConfig> {
    let all = configs(prop, thorough);
    let pick = |names: &[&str]| -> Vec<SimConfig> { all.iter().filter(|c| names.contains(&c.name.as_str())).cloned().collect() };
    match (prop, thorough) {
        ("C02", false) => pick(&["n2-full-preempt-true", "n2-lax-is-open"]),
        ("C02", true) => pick(&["n2-full-preempt-true", "n2-full-preempt-false", "n2-lax-is-open", "n2-lax-is-open-max0", "n2-upgrade", "n2-split-handshake-preempt-true", "n2-two-origins"]),
        ("C03" | "C19", false) => {
            let mut v = pick(&["n2-full-preempt-true", "n2-full-preempt-false"]);
            v.extend(held_yield_cfgs_c03());
            v
        }
        ("C03" | "C19", true) => {
            let mut v = pick(&["n2-full-preempt-true", "n2-full-preempt-false", "n2-split-handshake-preempt-true", "n2-split-handshake-preempt-false", "n2-two-origins"]);
            v.extend(held_yield_cfgs_c03());
            // three requests (an owner, a follower and a third party), request completion as one step, every
            // state within nine steps
            for mut c in pick(&["n3-macro-preempt-true", "n3-macro-preempt-false"]) {
                c.name = format!("{}-d9", c.name);
                c.max_depth = Some(9);
                v.push(c);
            }
            v
        }
        ("C04", false) => {
            let mut v = pick(&["n2-full-preempt-true"]);
            v.extend(fresh_close_cfgs(false));
            v.push(held_yield_cfg_c04());
            v
        }
        ("C04", true) => {
            let mut v = pick(&["n2-full-preempt-true", "n2-full-preempt-false", "n2-two-origins"]);
            v.extend(fresh_close_cfgs(true));
            v.push(held_yield_cfg_c04());
            for mut c in pick(&["n3-macro-preempt-true"]) {
                c.name = format!("{}-d9", c.name);
                c.max_depth = Some(9);
                v.push(c);
            }
            v
        }
        ("C05", false) => {
            let mut v = pick(&["n2-timeout-None"]);
            v.push(env_triples_cfg_c05());
            // the clock moving while an operation is in progress: one tick, HTTP/1.1 only
            let mut c = SimConfig::base("n2-h1-one-tick");
            c.allow_h2 = false;
            c.idle_timeout = Some(1);
            c.max_ticks = 1;
            c.ev_dial_fail = false;
            c.ev_cancel = false;
            v.push(c);
            v
        }
        ("C05", true) => {
            let mut v = pick(&["n2-timeout-None", "n2-timeout-Some(0)", "n2-timeout-Some(1)", "n2-lax-is-open"]);
            v.push(env_triples_cfg_c05());
            let mut c = SimConfig::base("n2-h1-one-tick");
            c.allow_h2 = false;
            c.idle_timeout = Some(1);
            c.max_ticks = 1;
            c.ev_dial_fail = false;
            v.push(c);
            v
        }
        ("C06", false) => pick(&["n2-host"]),
        ("C06", true) => pick(&["n2-host", "n2-scheme", "n2-port", "n2-wss-vs-https"]),
        ("C14", _) => {
            // also park inside critical sections (right after the pool mutex is taken): code that only TRIES the
            // lock sees it held. HTTP/2 only, abandoned attempts continue in the background
            let mut c = SimConfig::base("n2-h2-held-yields");
            c.allow_h1 = false;
            c.ev_dial_fail = false;
            c.ev_close = false;
            // HTTP/1.1: a connection released while another operation is between two critical sections is still
            // offered to the request that waits for its own attempt
            let mut d = SimConfig::base("n2-h1-release-overlaps");
            d.allow_h2 = false;
            d.ev_dial_fail = false;
            d.ev_close = false;
            let mut e = d.clone();
            e.name = "n2-h1-release-overlaps-preempt-false".into();
            e.continue_after_preemption = false;
            vec![c, d, e]
        }
        ("C15", _) => {
            let mut v = if thorough { pick(&["burst-k2-max1-close", "mixed-n2-max1", "burst-k3-max1", "burst-k3-max2"]) } else { pick(&["burst-k2-max1-close"]) };
            // THREE overlapping operations: the search starts with two idle connections and two finished requests
            // whose hand-back tasks have not run yet (bound 2); one more request. From every state within three
            // steps every pair and every triple of operations, every interleaving.
            let mut c = SimConfig::base("two-idle-two-releasing-max2-triples");
            c.prelude = ["Issue(o0,h1)", "Issue(o0,h1)", "Issue(o0,h1)", "Issue(o0,h1)", "Poll(r0)", "Poll(r1)", "Poll(r2)", "Poll(r3)", "DialOk(d0)", "DialOk(d1)", "DialOk(d2)", "DialOk(d3)", "Poll(r0)", "Poll(r1)", "Poll(r2)", "Poll(r3)", "Finish(r0)", "Finish(r1)", "Respond(r2)", "Poll(r2)", "ConnReady(c2)", "Respond(r3)", "Poll(r3)", "ConnReady(c3)"].iter().map(|s| s.to_string()).collect();
            c.max_requests = 5;
            c.max_idle_per_host = 2;
            c.allow_h2 = false;
            c.ev_cancel = false;
            c.ev_dial_fail = false;
            c.ev_close = false;
            c.max_depth = Some(3);
            v.push(c);
            v
        }
        _ => vec![],
    }
}

/// Interleaving configurations in which, besides pairs, every poll / background step is overlapped with the
/// close of the connection it is about to create and with a new request (three parties: the operation, the peer
/// and another caller). HTTP/2 only — the shared handle is registered in one critical section and the finished
/// check-out is dropped in a later one.
fn fresh_close_cfgs(thorough: bool) -> Vec<SimConfig> {
    let mut v = vec![];
    for preempt in if thorough { vec![true, false] } else { vec![true] } {
        let mut c = SimConfig::base(&format!("n2-h2-fresh-close-preempt-{preempt}"));
        c.allow_h1 = false;
        c.continue_after_preemption = preempt;
        c.ev_dial_fail = false;
        c.ev_cancel = thorough;
        v.push(c);
    }
    v
}

/// Interleaving configurations that also park INSIDE the pool's critical sections, so that code which only tries
/// the lock (and gives up when it is held) is seen giving up. C03: the owner of an HTTP/2 attempt is cancelled, or
/// its background attempt fails, while another operation holds the pool lock.
fn held_yield_cfgs_c03() -> Vec<SimConfig> {
    let mut a = SimConfig::base("n2-h2-held-yields-preempt-false");
    a.allow_h1 = false;
    a.continue_after_preemption = false;
    a.ev_dial_fail = false;
    a.ev_close = false;
    let mut b = SimConfig::base("n2-h2-held-yields-dial-fail");
    b.allow_h1 = false;
    b.ev_close = false;
    vec![a, b]
}

/// C05: the search starts with one HTTP/1.1 connection in use and two further requests that wait and dial; from
/// every state within five steps every pair of operations is also overlapped with every peer close.
fn env_triples_cfg_c05() -> SimConfig {
    let mut c = SimConfig::base("one-busy-two-waiting-env-triples");
    c.prelude = ["Issue(o0,h1)", "Poll(r0)", "DialOk(d0)", "Poll(r0)", "Issue(o0,h1)", "Issue(o0,h1)", "Poll(r1)", "Poll(r2)"].iter().map(|s| s.to_string()).collect();
    c.max_requests = 3;
    c.allow_h2 = false;
    c.ev_dial_fail = false;
    c.ev_cancel = false;
    c.max_depth = Some(5);
    c
}

/// C04: the search starts with one idle HTTP/1.1 connection; two more requests; critical-section yields. A
/// request that is issued (and takes the idle connection) and dropped before it is polled must put the connection
/// back even if another operation holds the pool lock at that moment.
fn held_yield_cfg_c04() -> SimConfig {
    let mut c = SimConfig::base("one-idle-h1-held-yields");
    c.prelude = ["Issue(o0,h1)", "Poll(r0)", "DialOk(d0)", "Poll(r0)", "Finish(r0)"].iter().map(|s| s.to_string()).collect();
    c.max_requests = 3;
    c.allow_h2 = false;
    c.ev_dial_fail = false;
    c.ev_close = false;
    c.max_depth = Some(6);
    c
}

pub fn opts_for(prop: &'static str, thorough: bool) -> Opts {
    Opts {
        props: match prop {
            "C19" => vec!["C19"],
            p => vec![p],
        },
        probe_closure: matches!(prop, "C03" | "C19"),
        spurious_probe: matches!(prop, "C03" | "C14"),
        audit_every: std::env::var("HDMC_AUDIT_EVERY").ok().and_then(|s| s.parse().ok()).unwrap_or(if thorough { 1 } else { 8 }),
        max_states: if thorough { 30_000_000 } else { 3_000_000 },
        max_wall_s: std::env::var("HDMC_MAX_WALL").ok().and_then(|s| s.parse().ok()).unwrap_or(if thorough { 1500.0 } else { 40.0 }),
        collect_states: false,
    }
}

pub(crate) fn replay_json(cfg: &SimConfig, hist: &[Ev]) -> serde_json::Value {
    json!({
        "engine": "poolmc",
        "config": {
            "name": cfg.name, "origins": cfg.origins, "max_requests": cfg.max_requests, "allow_h1": cfg.allow_h1, "allow_h2": cfg.allow_h2,
            "continue_after_preemption": cfg.continue_after_preemption, "max_idle_per_host": cfg.max_idle_per_host, "idle_timeout": cfg.idle_timeout,
            "split_handshake": cfg.split_handshake, "strict_is_open": cfg.strict_is_open, "ev_cancel": cfg.ev_cancel, "ev_dial_fail": cfg.ev_dial_fail,
            "exec_polls_ready": cfg.exec_polls_ready, "h1_only_protocol": cfg.h1_only_protocol, "ev_nudge": cfg.ev_nudge, "ev_close": cfg.ev_close, "ev_upgrade": cfg.ev_upgrade, "max_ticks": cfg.max_ticks, "t_ms": cfg.t_ms, "burst": cfg.burst, "max_depth": cfg.max_depth, "macro_finish": cfg.macro_finish, "fine_ticks": cfg.fine_ticks, "prelude": cfg.prelude,
        },
        "history": hist.iter().map(|e| e.text()).collect::<Vec<_>>(),
    })
}

fn cfg_from_json(v: &serde_json::Value) -> Option<SimConfig> {
    let c = v.get("config")?;
    let b = |k: &str| c.get(k).and_then(|x| x.as_bool()).unwrap_or(false);
    Some(SimConfig {
        name: c.get("name")?.as_str()?.to_string(),
        origins: c.get("origins")?.as_array()?.iter().filter_map(|x| x.as_str().map(|s| s.to_string())).collect(),
        max_requests: c.get("max_requests")?.as_u64()? as usize,
        allow_h1: b("allow_h1"),
        allow_h2: b("allow_h2"),
        continue_after_preemption: b("continue_after_preemption"),
        max_idle_per_host: c.get("max_idle_per_host")?.as_u64()? as usize,
        idle_timeout: c.get("idle_timeout").and_then(|x| x.as_u64()),
        split_handshake: b("split_handshake"),
        strict_is_open: b("strict_is_open"),
        exec_polls_ready: b("exec_polls_ready"),
        h1_only_protocol: b("h1_only_protocol"),
        ev_nudge: b("ev_nudge"),
        ev_cancel: b("ev_cancel"),
        ev_dial_fail: b("ev_dial_fail"),
        ev_close: b("ev_close"),
        ev_upgrade: b("ev_upgrade"),
        max_ticks: c.get("max_ticks")?.as_u64()? as usize,
        t_ms: c.get("t_ms").and_then(|x| x.as_u64()).unwrap_or(100_000),
        burst: b("burst"),
        max_depth: c.get("max_depth").and_then(|x| x.as_u64()).map(|x| x as usize),
        macro_finish: b("macro_finish"),
        fine_ticks: b("fine_ticks"),
        prelude: c.get("prelude").and_then(|x| x.as_array()).map(|a| a.iter().filter_map(|x| x.as_str().map(|s| s.to_string())).collect()).unwrap_or_default(),
    })
}

/// Re-execute a recorded history without the explorer and evaluate the oracles on every step.
pub fn replay_file(path: &str, prop: &'static str) -> i32 {
    let text = std::fs::read_to_string(path).expect("replay file");
    let doc: serde_json::Value = serde_json::from_str(&text).expect("json");
    let rp = doc.get("replay").cloned().unwrap_or(doc.clone());
    if rp.get("engine").and_then(|x| x.as_str()) == Some("schedmc-c01") {
        std::panic::set_hook(Box::new(|_| {}));
        let (_, viols) = crate::schedmc::c01::handback_drop_runs(false);
        let _ = std::panic::take_hook();
        for (sig, what, _) in &viols {
            println!("  {sig}: {what}");
        }
        return if viols.is_empty() {
            println!("replay holds");
            0
        } else {
            println!("VIOLATION property={prop} replay={path}");
            1
        };
    }
    if rp.get("engine").and_then(|x| x.as_str()) == Some("c15-builder") {
        let (_, viols) = crate::schedmc::c01::builder_pool_bound_runs();
        for (sig, what, _) in &viols {
            println!("  {sig}: {what}");
        }
        return if viols.is_empty() {
            println!("replay holds");
            0
        } else {
            println!("VIOLATION property={prop} replay={path}");
            1
        };
    }
    let Some(cfg) = cfg_from_json(&rp) else {
        println!("MACHINERY-ERROR replay file has no config");
        return 2;
    };
    if rp.get("engine").and_then(|x| x.as_str()) == Some("poolmc-conc") {
        let hist: Vec<Ev> = rp.get("history").and_then(|h| h.as_array()).map(|a| a.iter().filter_map(|x| x.as_str().and_then(Ev::parse)).collect()).unwrap_or_default();
        let pair: Vec<Ev> = rp.get("pair").and_then(|h| h.as_array()).map(|a| a.iter().filter_map(|x| x.as_str().and_then(Ev::parse)).collect()).unwrap_or_default();
        let schedule: Vec<u8> = rp.get("schedule").and_then(|h| h.as_array()).map(|a| a.iter().filter_map(|x| x.as_u64().map(|v| v as u8)).collect()).unwrap_or_default();
        if pair.len() < 2 || pair.len() > 3 {
            println!("MACHINERY-ERROR replay file has no operation group");
            return 2;
        }
        std::panic::set_hook(Box::new(|_| {}));
        let r1 = conc::replay(&cfg, &hist, &pair, &schedule);
        let r2 = conc::replay(&cfg, &hist, &pair, &schedule);
        let _ = std::panic::take_hook();
        let (Ok((v1, log1)), Ok((v2, log2))) = (r1, r2) else {
            println!("MACHINERY-ERROR the recorded interleaving does not replay");
            return 2;
        };
        if v1 != v2 || log1 != log2 {
            println!("MACHINERY-ERROR replay diverged between two executions");
            return 2;
        }
        println!("config: {}", cfg.describe());
        println!("history: [{}]", hist_text(&hist));
        println!("{log1}");
        let mine: Vec<_> = v1.iter().filter(|v| v.prop == prop || (prop == "C19" && v.prop == "C03")).collect();
        for v in &mine {
            println!("  {} / {}: {}", v.prop, v.sub, v.msg);
        }
        return if mine.is_empty() {
            println!("replay holds");
            0
        } else {
            println!("VIOLATION property={prop} replay={path}");
            1
        };
    }
    let hist: Vec<Ev> = rp
        .get("history")
        .and_then(|h| h.as_array())
        .map(|a| a.iter().filter_map(|x| x.as_str().and_then(Ev::parse)).collect())
        .unwrap_or_default();
    let run_once = || -> (Vec<String>, Vec<checks::Viol>) {
        let mut sim = Sim::new(&cfg);
        let mut log = vec![];
        let mut viols = vec![];
        for &e in &hist {
            if !sim.enabled().contains(&e) {
                log.push(format!("!! event {} is not enabled here", e.text()));
                break;
            }
            let pre = checks::capture_pre(&sim);
            let rep = sim.apply(e);
            let vs = checks::check_step(&pre, e, &rep, &sim);
            log.push(format!("{:<18} {}", e.text(), rep.obs.join("; ")));
            viols.extend(vs);
        }
        let opts = opts_for(prop, false);
        let ex = bfs::expand(&cfg, &hist, &opts);
        viols.extend(ex.state_viols);
        (log, viols)
    };
    let (log1, v1) = run_once();
    let (log2, v2) = run_once();
    if log1 != log2 || v1 != v2 {
        println!("MACHINERY-ERROR replay diverged between two executions");
        return 2;
    }
    println!("config: {}", cfg.describe());
    for l in &log1 {
        println!("  {l}");
    }
    let mine: Vec<_> = v1.iter().filter(|v| v.prop == prop || (prop == "C19" && v.prop == "C03")).collect();
    for v in &mine {
        println!("  {} / {}: {}", v.prop, v.sub, v.msg);
    }
    if mine.is_empty() {
        println!("replay holds");
        0
    } else {
        println!("VIOLATION property={prop} replay={path}");
        1
    }
}

pub fn run(args: &Args, prop: &'static str) -> i32 {
    if let Some(p) = &args.replay {
        return replay_file(p, prop);
    }
    if std::env::var("HDMC_SHOW_PANICS").is_err() {
        std::panic::set_hook(Box::new(|_| {}));
    }
    let mut run = Run::new(prop, args.tier, "model_checking");
    let err = run_into(&mut run, prop, args.tier.is_thorough());
    if prop == "C02" {
        // end to end with the library's own connection type: the hand-back task dropped at any scheduling point
        let (n, viols) = crate::schedmc::c01::handback_drop_runs(args.tier.is_thorough());
        run.cov("e2e_hand_back_task_dropped_executions", n);
        for (sig, what, rp) in viols {
            run.violation(sig, what, rp);
        }
    }
    if prop == "C15" {
        // the bound a caller configures through the public client builder is the bound in force
        let (n, viols) = crate::schedmc::c01::builder_pool_bound_runs();
        run.cov("builder_configuration_runs", n);
        for (sig, what, rp) in viols {
            run.violation(sig, what, rp);
        }
    }
    let _ = std::panic::take_hook();
    if let Some(m) = err {
        if run.violations.is_empty() {
            println!("MACHINERY-ERROR {m}");
            let _ = run.finish();
            return 2;
        }
        // an unsound merge can only hide states; a violation that was found has a concrete witness that
        // replays on its own, so it stands
        println!("NOTE machinery: {m} (the violations below have concrete witnesses and stand)");
    }
    run.finish()
}

/// Search every configuration of `prop`, add coverage and violations to `run`.
/// Returns a machinery error (failed merge audit) if there was one.
pub fn run_into(run: &mut Run, prop: &'static str, thorough: bool) -> Option<String> {
    // recorded witnesses of defects that were found and repaired: replayed on every run
    let reg_dir = std::path::PathBuf::from(crate::evidence::VERIF_ROOT).join("regressions").join(if prop == "C19" { "C03" } else { prop });
    let mut regress_replayed = 0u64;
    if let Ok(rd) = std::fs::read_dir(&reg_dir) {
        let mut files: Vec<_> = rd.filter_map(|e| e.ok()).map(|e| e.path()).filter(|p| p.extension().map(|x| x == "json").unwrap_or(false)).collect();
        files.sort();
        for f in files {
            let Ok(text) = std::fs::read_to_string(&f) else { continue };
            let Ok(doc) = serde_json::from_str::<serde_json::Value>(&text) else { continue };
            let Some(cfg) = cfg_from_json(&doc) else { continue };
            let hist: Vec<Ev> = doc.get("history").and_then(|h| h.as_array()).map(|a| a.iter().filter_map(|x| x.as_str().and_then(Ev::parse)).collect()).unwrap_or_default();
            regress_replayed += 1;
            let mut sim = Sim::new(&cfg);
            let mut viols = vec![];
            let mut valid = true;
            for &e in &hist {
                if !sim.enabled().contains(&e) {
                    valid = false; // the repaired code takes a different path; nothing to evaluate past here
                    break;
                }
                let pre = checks::capture_pre(&sim);
                let rep = sim.apply(e);
                viols.extend(checks::check_step(&pre, e, &rep, &sim));
            }
            drop(sim);
            if valid {
                let o = opts_for(if prop == "C19" { "C03" } else { prop }, false);
                viols.extend(bfs::expand(&cfg, &hist, &o).state_viols);
            }
            let want = if prop == "C19" { "C03" } else { prop };
            for vv in viols.into_iter().filter(|v| v.prop == want) {
                let name = f.file_stem().map(|s| s.to_string_lossy().to_string()).unwrap_or_default();
                run.violation(format!("{}/{} regression={name}", vv.prop, vv.sub), format!("recorded witness {name} violates again: {} — {}", vv.sub, vv.msg), replay_json(&cfg, &hist));
            }
        }
    }
    run.cov("regression_witnesses_replayed", regress_replayed);
    let cfgs = configs(prop, thorough);
    let mut opts = opts_for(prop, thorough);
    let mut tot = bfs::Stats::default();
    let mut per_cfg = vec![];
    let mut samples = vec![];
    let mut exhaustive = true;
    let mut machinery_error = None;
    for cfg in &cfgs {
        // C19 part 2 is C03's probe closure restricted to histories that contain a cancellation
        if prop == "C19" {
            opts.props = vec!["C03"];
        }
        let out = explore(cfg, &opts);
        let s = &out.stats;
        println!(
            "  [{}] states={} transitions={} depth={} merges={} audits={} audit_failures={} quiescent={} handoffs={} probes={} pruned={} wall={:.1}s{}",
            cfg.name, s.states, s.transitions, s.max_depth, s.merges, s.merge_audits, s.audit_failures, s.quiescent_states, s.handoffs_checked, s.probes, s.pruned, s.wall_s,
            s.capped.as_ref().map(|c| format!(" CAPPED: {c}")).unwrap_or_default() + &s.depth_bound_hit.map(|d| format!(" depth-bound {d} ({} states on the bound not expanded)", s.unexpanded_at_bound)).unwrap_or_default()
        );
        tot.states += s.states;
        tot.transitions += s.transitions;
        tot.max_depth = tot.max_depth.max(s.max_depth);
        tot.merges += s.merges;
        tot.merge_audits += s.merge_audits;
        tot.audit_failures += s.audit_failures;
        tot.quiescent_states += s.quiescent_states;
        tot.handoffs_checked += s.handoffs_checked;
        tot.probes += s.probes;
        tot.spurious_probes += s.spurious_probes;
        tot.pruned += s.pruned;
        tot.replays += s.replays;
        tot.events_executed += s.events_executed;
        if s.capped.is_some() {
            exhaustive = false;
        }
        per_cfg.push(json!({"config": cfg.describe(), "states": s.states, "transitions": s.transitions, "max_depth": s.max_depth,
            "merges": s.merges, "merge_audits": s.merge_audits, "quiescent_states": s.quiescent_states, "handoffs_checked": s.handoffs_checked,
            "probe_closures": s.probes, "spurious_poll_probes": s.spurious_probes, "pruned_after_violation": s.pruned, "capped": s.capped, "wall_s": s.wall_s,
            "searched": if s.capped.is_some() { "capped" } else if s.depth_bound_hit.is_some() { "all histories up to the depth bound" } else { "to fixpoint" }, "depth_bound": s.depth_bound_hit,
            "level_sizes": s.level_sizes}));
        for h in s.sample_histories.iter().take(1) {
            if samples.len() < 5 {
                samples.push(json!({"config": cfg.name, "history_reaching_a_quiescent_state": h}));
            }
        }
        if s.audit_failures > 0 {
            machinery_error = Some(format!("merge audit failed in config {} ({} of {} audits): fingerprint too coarse; witness {:?}", cfg.name, s.audit_failures, s.merge_audits, out.audit_failure_witness));
        }
        for f in out.found {
            if prop == "C19" && !(f.viol.sub == "probe-blocked" || f.viol.sub == "stranded") {
                continue;
            }
            if prop == "C19" && !f.hist.iter().any(|e| matches!(e, Ev::Cancel(_))) {
                continue;
            }
            let sig = format!("{}/{} config={} witness=[{}]", f.viol.prop, f.viol.sub, cfg.name, hist_text(&f.hist));
            run.violation(sig, format!("{}: {} — after [{}] in config {}", f.viol.sub, f.viol.msg, hist_text(&f.hist), cfg.describe()), replay_json(cfg, &f.hist));
        }
    }
    // E6: intra-poll interleavings of two concurrent operations, from every state of selected configurations
    let conc_props: Vec<&'static str> = if prop == "C19" { vec!["C03"] } else { vec![prop] };
    let mut conc_cfgs_json = vec![];
    let (mut c_pairs, mut c_inter, mut c_only, mut c_states) = (0u64, 0u64, 0u64, 0u64);
    for cfg in conc_configs(prop, thorough) {
        let out = conc::explore(&cfg, &conc_props, if thorough { 900.0 } else { 45.0 });
        let s = &out.stats;
        println!(
            "  [interleavings {}] states={} pairs={} interleavings={} max_decision_points={} max_per_pair={} equal_to_sequential={} concurrency_only={} (distinct {}) wall={:.1}s{}",
            cfg.name, s.states, s.pairs, s.interleavings, s.max_decision_points, s.max_interleavings_of_a_pair, s.outcomes_equal_to_a_sequential_state, s.concurrency_only_states, s.distinct_concurrency_only_states, s.wall_s,
            s.capped.as_ref().map(|c| format!(" CAPPED: {c}")).unwrap_or_default()
        );
        c_pairs += s.pairs;
        c_inter += s.interleavings;
        c_only += s.concurrency_only_states;
        c_states += s.states;
        if s.capped.is_some() {
            exhaustive = false;
        }
        conc_cfgs_json.push(json!({"config": cfg.describe(), "states_paired": s.states, "operation_pairs": s.pairs - s.env_pairs - s.triples, "operation_x_environment_event_pairs": s.env_pairs, "operation_triples": s.triples, "interleavings_executed": s.interleavings,
            "max_decision_points": s.max_decision_points, "max_interleavings_of_one_pair": s.max_interleavings_of_a_pair, "pairs_with_more_than_two_interleavings": s.pairs_with_a_choice,
            "outcomes_equal_to_a_sequential_state": s.outcomes_equal_to_a_sequential_state, "outcomes_no_sequential_order_reaches": s.concurrency_only_states,
            "distinct_states_no_sequential_order_reaches": s.distinct_concurrency_only_states, "continued_to_quiescence": s.drains, "probe_requests": s.probes,
            "handoffs_checked": s.handoffs_checked, "yield_sites_reached": s.sites.iter().collect::<Vec<_>>(), "capped": s.capped, "wall_s": s.wall_s, "sample": s.sample}));
        if let Some(m) = out.machinery_error {
            machinery_error = Some(format!("interleaving engine, config {}: {m}", cfg.name));
        }
        for f in out.found {
            if prop == "C19" && !f.hist.iter().any(|e| matches!(e, Ev::Cancel(_))) && !f.group.iter().any(|e| matches!(e, Ev::Cancel(_))) {
                continue;
            }
            let gtext = f.group.iter().map(|e| e.text()).collect::<Vec<_>>().join(" || ");
            let sig = format!("{}/{} concurrent config={} witness=[{}] pair=({gtext}) schedule={:?}", f.viol.prop, f.viol.sub, cfg.name, hist_text(&f.hist), f.schedule);
            let mut rp = replay_json(&cfg, &f.hist);
            rp["engine"] = json!("poolmc-conc");
            rp["pair"] = json!(f.group.iter().map(|e| e.text()).collect::<Vec<_>>());
            rp["schedule"] = json!(f.schedule);
            run.violation(sig, format!("{}: {} — after [{}], operations {gtext} executed concurrently and interleaved as: {} (config {})", f.viol.sub, f.viol.msg, hist_text(&f.hist), f.steps, cfg.describe()), rp);
        }
    }
    run.cov("interleaving_states_paired", c_states);
    run.cov("interleaving_operation_pairs", c_pairs);
    run.cov("interleavings_executed", c_inter);
    run.cov("interleaving_outcomes_no_sequential_order_reaches", c_only);
    run.cov("interleaving_configurations", conc_cfgs_json);
    run.cov("states", tot.states);
    run.cov("transitions", tot.transitions);
    run.cov("traces_validated_against_impl", tot.transitions);
    run.cov("max_depth", tot.max_depth as u64);
    run.cov("merges", tot.merges);
    run.cov("merge_audits", tot.merge_audits);
    run.cov("merge_audit_failures", tot.audit_failures);
    run.cov("quiescent_states", tot.quiescent_states);
    run.cov("handoffs_checked", tot.handoffs_checked);
    run.cov("probe_closures", tot.probes);
    run.cov("spurious_poll_probes", tot.spurious_probes);
    run.cov("pruned_after_violation", tot.pruned);
    run.cov("replays", tot.replays);
    run.cov("events_executed_on_real_code", tot.events_executed);
    run.cov("exhaustive", exhaustive);
    run.cov("configurations", per_cfg);
    run.cov("samples", samples);
    run.cov("explanation", "states are event histories of the real ConnectionPoolService (no separate model): every transition is one call into the crate (issue / poll / drop / background-task poll) or one environment answer; each configuration is searched breadth-first to fixpoint; merging by fingerprint is validated by a one-step successor audit on every merge");
    run.assume("breadth-first search: atomicity granularity is one poll / one drop. Intra-poll pre-emption on a multi-threaded runtime is covered by the interleaving engine for TWO concurrent operations from every state of the listed N=2 configurations, interleaved at every pool-lock acquisition and waiter-channel operation; three or more overlapping operations, and interleavings inside tokio's oneshot channel or inside one critical section, are not covered");
    run.assume("the harness connection models hyper's sender by open/busy/upgraded flags; dials, handshakes, exchanges and busy connections eventually resolve (fairness for C03)");
    machinery_error
}

/// Development entry point: `hdmc CONC` with HDMC_CONC_PROP=<ID> (configs of that property, N=2 to fixpoint only).
pub fn conc_cli() -> i32 {
    std::panic::set_hook(Box::new(|_| {}));
    if let Ok(w) = std::env::var("HDMC_DEBUG_AUDIT") {
        // HDMC_DEBUG_AUDIT="<prop>|<config>|<witness history>": find the representative with the same
        // fingerprint and print the successors whose canonical texts differ
        let parts: Vec<&str> = w.split('|').collect();
        let prop: &'static str = Box::leak(parts[0].to_string().into_boxed_str());
        let cfg = configs(prop, false).into_iter().find(|c| c.name == parts[1]).expect("config");
        let hist: Vec<Ev> = parts[2].split(' ').filter_map(Ev::parse).collect();
        let mut o = opts_for(prop, false);
        o.collect_states = true;
        o.audit_every = u64::MAX;
        let out = bfs::explore(&cfg, &o);
        let fp = bfs::fp_of(&bfs::canon(&Sim::replay(&cfg, &hist)));
        let rep = out.reps.iter().find(|(f, _)| *f == fp).map(|(_, h)| h.clone()).expect("representative");
        println!("witness: {}\nrepresentative: {}", hist_text(&hist), hist_text(&rep));
        let en = Sim::replay(&cfg, &hist).enabled();
        for e in en {
            let mut a = Sim::replay(&cfg, &hist);
            a.apply(e);
            let mut b = Sim::replay(&cfg, &rep);
            b.apply(e);
            let (ca, cb) = (bfs::canon(&a), bfs::canon(&b));
            if ca != cb {
                println!("--- after {}:\n  W: {}\n  R: {}", e.text(), ca, cb);
                break;
            }
        }
        return 0;
    }
    if let Ok(h) = std::env::var("HDMC_DEBUG_HIST") {
        let mut c = SimConfig::base("dbg");
        c.idle_timeout = Some(1);
        let hist: Vec<Ev> = h.split(' ').filter_map(Ev::parse).collect();
        let sim = Sim::replay(&c, &hist);
        println!("{:?}", sim.svc);
        return 0;
    }
    let prop: &'static str = Box::leak(std::env::var("HDMC_CONC_PROP").unwrap_or_else(|_| "C03".into()).into_boxed_str());
    let filter = std::env::var("HDMC_CONC_CFG").ok();
    let mut rc = 0;
    for cfg in configs(prop, false) {
        if cfg.max_requests != 2 || cfg.max_depth.is_some() {
            continue;
        }
        if let Some(f) = &filter {
            if !cfg.name.contains(f.as_str()) {
                continue;
            }
        }
        let out = conc::explore(&cfg, &["C02", "C03", "C04", "C05", "C06", "C15"], 600.0);
        let s = &out.stats;
        println!("[{}] states={} pairs={} interleavings={} max_points={} max_inter={} pairs_with_choice={} seq_equal={} conc_only={} (distinct {}) drains={} probes={} handoffs={} wall={:.1}s capped={:?}\n   sites={:?}\n   sample={:?}",
            cfg.name, s.states, s.pairs, s.interleavings, s.max_decision_points, s.max_interleavings_of_a_pair, s.pairs_with_a_choice, s.outcomes_equal_to_a_sequential_state,
            s.concurrency_only_states, s.distinct_concurrency_only_states, s.drains, s.probes, s.handoffs_checked, s.wall_s, s.capped, s.sites, s.sample);
        if let Some(m) = &out.machinery_error {
            println!("MACHINERY-ERROR {m}");
            rc = 2;
        }
        for f in &out.found {
            println!("  FOUND {}/{}: {} — after [{}] pair {} ∥ {} schedule {:?}: {}", f.viol.prop, f.viol.sub, f.viol.msg, hist_text(&f.hist), f.group[0].text(), f.group[1].text(), f.schedule, f.steps);
            rc = rc.max(1);
        }
    }
    rc
}
