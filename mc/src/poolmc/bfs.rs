//! Level-synchronous, parallel breadth-first search over event histories of the real pool,
//! with fingerprint merging and a successor-level merge audit.

use super::checks::{self, Viol};
use super::sim::{hist_text, Ev, Sim, SimConfig};
use super::world;
use crate::evidence::{n_threads, par_map};
use std::collections::hash_map::DefaultHasher;
use std::collections::{BTreeMap, BTreeSet, HashMap};
use std::hash::{Hash, Hasher};
use std::sync::atomic::Ordering;
use std::time::Instant;

pub type Fp = u128;

fn h64(salt: u64, s: &str) -> u64 {
    let mut h = DefaultHasher::new();
    salt.hash(&mut h);
    s.hash(&mut h);
    h.finish()
}

pub fn fp_of(s: &str) -> Fp {
    ((h64(0x9e37_79b9, s) as u128) << 64) | h64(0x85eb_ca6b, s) as u128
}

/// Canonical text of the state (property-relevant fields only; see DESIGN §3.4).
pub fn canon(sim: &Sim) -> String {
    use std::fmt::Write;
    let mut s = String::with_capacity(512);
    let snap = &sim.snap;
    for t in &snap.tokens {
        let _ = write!(s, "T{}[c{} q{:?} i", t.token, t.connecting as u8, t.waiters_closed);
        for i in &t.idle {
            // age class: halves of T (quarters when the configuration has the 3T/4 tick)
            let age_half = (i.age.as_millis() as u64 * if sim.cfg.fine_ticks { 4 } else { 2 }) / sim.cfg.t_ms;
            let _ = write!(s, "({},{},{},{})", i.conn, i.open as u8, i.shareable as u8, age_half);
        }
        s.push(']');
    }
    let _ = write!(s, "K{:?}", snap.keys);
    for (i, r) in sim.reqs.iter().enumerate() {
        let stage = r.fut.as_ref().map(|f| f.verif_stage()).unwrap_or_default();
        let _ = write!(
            s,
            "|r{i}:o{}{}:{}:w{}p{}:{:?}:in{:?}:h{:?}{}:{:?}:a{:?}x{:?}",
            r.origin,
            if r.h2 { "h2" } else { "h1" },
            stage,
            r.flag.0.load(Ordering::SeqCst) as u8,
            r.polled as u8,
            r.outcome,
            r.inbox,
            r.held,
            r.held_expired as u8,
            r.handoff.is_some(),
            r.avail_at_issue.is_some(),
            r.h2_exists_at_issue,
        );
    }
    world::with(|w| {
        for (i, d) in w.dials.iter().enumerate() {
            let _ = write!(s, "|d{i}:{}:{:?}:{}:{:?}:{}:{:?}", d.origin, d.owner, d.owner_h2 as u8, d.stage, d.dropped as u8, d.conn);
        }
        for (i, c) in w.conns.iter().enumerate() {
            let _ = write!(
                s,
                "|c{i}:{}:{}{}{}{}:h{}:x{}:p{}:n{}:w{}",
                c.origin, c.h2 as u8, c.open as u8, c.busy as u8, c.upgraded as u8, c.handles, c.holders, c.ever_pooled as u8, c.handoffs.min(1), c.ready_wakers.len()
            );
            // order facts the C05 oracle depends on
            for (ri, r) in sim.reqs.iter().enumerate() {
                if r.fut.is_some() {
                    if let Some(cs) = c.close_step {
                        let _ = write!(s, ":cb{ri}={}", (cs < r.issue_step) as u8);
                        if r.held == Some(i) || r.inbox == Some(i) {
                            let _ = write!(s, ":ch{ri}={}", r.recv_handback_step.map(|hb| cs < hb).unwrap_or(false) as u8);
                        }
                    }
                }
            }
        }
        for (i, x) in w.exchanges.iter().enumerate() {
            let _ = write!(s, "|x{i}:r{}c{}:{}{}", x.req, x.conn, x.responded as u8, x.dropped as u8);
        }
    });
    for (i, b) in sim.bgs.iter().enumerate() {
        let _ = write!(s, "|t{i}:{}:{}:w{}p{}:{:?}", b.kind(), b.task.is_some() as u8, b.flag.0.load(Ordering::SeqCst) as u8, b.polled as u8, b.spawned_by);
    }
    let _ = write!(s, "|clk{}t{}|pan{}", sim.clock_half_t, sim.ticks_used, sim.panicked.is_some() as u8);
    // Everything the pool's own (derived) Debug shows, with instants rewritten relative to the frozen
    // clock. The snapshot hook above lists the fields the oracles read; this catches state the hook
    // does not know about (a field added to a pool structure is part of the state at once, so two
    // histories that differ only in it are not merged).
    let _ = write!(s, "|dbg{}", normalise_instants(&format!("{:?}", sim.svc)));
    s
}

fn parse_instant(text: &str) -> Option<(i128, usize)> {
    // "Instant { tv_sec: 123, tv_nsec: 456 }" -> nanoseconds, length consumed
    let rest = text.strip_prefix("Instant { tv_sec: ")?;
    let (sec, rest2) = rest.split_once(", tv_nsec: ")?;
    let (nsec, _) = rest2.split_once(" }")?;
    let consumed = "Instant { tv_sec: ".len() + sec.len() + ", tv_nsec: ".len() + nsec.len() + " }".len();
    Some((sec.parse::<i128>().ok()? * 1_000_000_000 + nsec.parse::<i128>().ok()?, consumed))
}

/// Rewrite every `Instant { .. }` in a Debug text as milliseconds since the frozen pool clock's origin.
pub fn normalise_instants(text: &str) -> String {
    let base = hyperdriver::verif_hooks::clock_state().0.and_then(|b| parse_instant(&format!("{b:?}")).map(|x| x.0));
    let mut out = String::with_capacity(text.len());
    let mut rest = text;
    while let Some(pos) = rest.find("Instant { tv_sec: ") {
        out.push_str(&rest[..pos]);
        match parse_instant(&rest[pos..]) {
            Some((ns, used)) => {
                match base {
                    Some(b) => out.push_str(&format!("t+{}ms", (ns - b) / 1_000_000)),
                    None => out.push_str("t?"),
                }
                rest = &rest[pos + used..];
            }
            None => {
                out.push_str("Instant");
                rest = &rest[pos + "Instant".len()..];
            }
        }
    }
    out.push_str(rest);
    out
}

#[derive(Clone, Debug)]
pub struct Succ {
    pub ev: Ev,
    pub fp: Fp,
    pub obs: u64,
    pub viols: Vec<Viol>,
}

#[derive(Clone, Debug, Default)]
pub struct Expansion {
    pub succ: Vec<Succ>,
    pub state_viols: Vec<Viol>,
    pub quiescent: bool,
    pub probes: u32,
    pub spurious_probes: u32,
    pub handoffs: u32,
    pub replays: u32,
    pub events: u64,
}

impl Expansion {
    /// Signature compared in the merge audit.
    pub fn sig(&self) -> u64 {
        let mut items: Vec<(Ev, Fp, u64, Vec<&'static str>)> = self
            .succ
            .iter()
            .map(|s| (s.ev, s.fp, s.obs, s.viols.iter().map(|v| v.sub).collect()))
            .collect();
        items.sort();
        let mut h = DefaultHasher::new();
        items.hash(&mut h);
        self.quiescent.hash(&mut h);
        let mut sv: Vec<&str> = self.state_viols.iter().map(|v| v.sub).collect();
        sv.sort();
        sv.hash(&mut h);
        h.finish()
    }
}

#[derive(Clone, Debug)]
pub struct Opts {
    /// properties whose violations prune expansion and are reported
    pub props: Vec<&'static str>,
    pub probe_closure: bool,
    pub spurious_probe: bool,
    /// audit one in `audit_every` merges (1 = all)
    pub audit_every: u64,
    pub max_states: usize,
    pub max_wall_s: f64,
    /// keep every expanded state's representative history and fingerprint (interleaving engine)
    pub collect_states: bool,
}

/// Expand one history: successors (each from a fresh replay) and state-level side checks.
pub fn expand(cfg: &SimConfig, hist: &[Ev], opts: &Opts) -> Expansion {
    let mut ex = Expansion::default();
    let _g = {
        let (c, h) = (cfg.clone(), hist.to_vec());
        crate::evidence::watchdog::enter(move || super::replay_json(&c, &h))
    };
    let sim = Sim::replay(cfg, hist);
    ex.replays += 1;
    ex.events += hist.len() as u64;
    let enabled = sim.enabled();
    ex.quiescent = sim.quiescent();
    let unwoken: Vec<u8> = sim
        .reqs
        .iter()
        .enumerate()
        .filter(|(_, r)| r.fut.is_some() && r.polled && !r.flag.0.load(Ordering::SeqCst))
        .map(|(i, _)| i as u8)
        .collect();
    let origins_used: BTreeSet<u8> = sim.reqs.iter().map(|r| r.origin).collect();
    if ex.quiescent {
        ex.state_viols.extend(checks::check_quiescent(&sim));
    }
    drop(sim);
    for e in enabled {
        let mut sim = Sim::replay(cfg, hist);
        ex.replays += 1;
        ex.events += hist.len() as u64 + 1;
        let pre = checks::capture_pre(&sim);
        let rep = sim.apply(e);
        let viols = checks::check_step(&pre, e, &rep, &sim);
        ex.handoffs += rep.new_handoffs.len() as u32;
        let c = canon(&sim);
        ex.succ.push(Succ {
            ev: e,
            fp: fp_of(&c),
            obs: h64(1, &rep.obs.join(";")),
            viols,
        });
    }
    // C03 (2): polling a request that was not woken must not make progress
    if opts.spurious_probe {
        for r in unwoken {
            let mut sim = Sim::replay(cfg, hist);
            ex.replays += 1;
            ex.events += hist.len() as u64 + 1;
            let before = fp_of(&canon(&sim));
            let rep = sim.apply(Ev::Poll(r));
            ex.spurious_probes += 1;
            if rep.poll_result.as_deref() != Some("pending") {
                ex.state_viols.push(Viol {
                    prop: "C03",
                    sub: "lost-wakeup",
                    msg: format!("r{r} was not woken, yet polling it again yields {:?}: a state change that let it proceed did not wake it", rep.poll_result),
                });
            } else if fp_of(&canon(&sim)) != before {
                // still pending, but the poll moved the request on (took a delivered connection,
                // started an exchange, ...): it could proceed and nobody told it
                ex.state_viols.push(Viol {
                    prop: "C03",
                    sub: "lost-wakeup",
                    msg: format!("r{r} was not woken, yet polling it again changes the state ({}): a state change that let it proceed did not wake it", rep.obs.join("; ")),
                });
            }
        }
    }
    // C03 (3) / C19: from every quiescent state a fresh request per origin completes
    if opts.probe_closure && ex.quiescent {
        for &o in &origins_used {
            for h2 in [false, true] {
                if (h2 && !cfg.allow_h2) || (!h2 && !cfg.allow_h1) {
                    continue;
                }
                let mut sim = Sim::replay(cfg, hist);
                ex.replays += 1;
                ex.probes += 1;
                let p = sim.issue_probe(o, h2);
                let ok = sim.drain(200);
                ex.events += sim.history.len() as u64;
                let resolved_ok = matches!(sim.reqs[p as usize].outcome, super::sim::Outcome::Ok(_));
                if !ok || !resolved_ok {
                    ex.state_viols.push(Viol {
                        prop: "C03",
                        sub: "probe-blocked",
                        msg: format!(
                            "a fresh {} request to origin o{o} issued after this history does not complete although every dial succeeds: outcome {:?}{}",
                            if h2 { "HTTP/2" } else { "HTTP/1.1" },
                            sim.reqs[p as usize].outcome,
                            if ok { "" } else { " (drain did not terminate)" }
                        ),
                    });
                }
            }
        }
    }
    ex
}

#[derive(Debug, Default, Clone)]
pub struct Stats {
    pub states: u64,
    pub transitions: u64,
    pub max_depth: usize,
    pub merges: u64,
    pub merge_audits: u64,
    pub audit_failures: u64,
    pub quiescent_states: u64,
    pub handoffs_checked: u64,
    pub probes: u64,
    pub spurious_probes: u64,
    pub pruned: u64,
    pub replays: u64,
    pub events_executed: u64,
    pub capped: Option<String>,
    pub depth_bound_hit: Option<usize>,
    pub unexpanded_at_bound: u64,
    pub wall_s: f64,
    pub level_sizes: Vec<usize>,
    pub sample_histories: Vec<String>,
}

pub struct Found {
    pub viol: Viol,
    pub hist: Vec<Ev>,
}

pub struct Outcome {
    pub stats: Stats,
    /// first (shortest, then smallest) witness per (prop, sub)
    pub found: Vec<Found>,
    pub audit_failure_witness: Option<String>,
    /// with `collect_states`: (fingerprint, representative history) of every state that was expanded
    pub reps: Vec<(Fp, Vec<Ev>)>,
    /// with `collect_states`: every fingerprint seen (expanded or on the depth bound)
    pub fps: std::collections::HashSet<Fp>,
}

struct Info {
    sig: Option<u64>,
}

pub fn explore(cfg: &SimConfig, opts: &Opts) -> Outcome {
    let t0 = Instant::now();
    let threads = n_threads();
    let mut stats = Stats::default();
    let mut visited: HashMap<Fp, Info> = HashMap::new();
    let mut found: BTreeMap<(&'static str, &'static str), Found> = BTreeMap::new();
    let mut audits: Vec<(Fp, Vec<Ev>)> = vec![];
    let mut audit_failure_witness = None;

    let root_fp = {
        let sim = Sim::new(cfg);
        fp_of(&canon(&sim))
    };
    visited.insert(root_fp, Info { sig: None });
    let mut frontier: Vec<(Fp, Vec<Ev>)> = vec![(root_fp, vec![])];
    stats.states = 1;
    let mut depth = 0usize;
    let mut merge_counter: u64 = 0;

    let mut reps: Vec<(Fp, Vec<Ev>)> = vec![];
    while !frontier.is_empty() {
        if opts.collect_states {
            reps.extend(frontier.iter().cloned());
        }
        stats.level_sizes.push(frontier.len());
        stats.max_depth = depth;
        // expand the frontier in parallel
        let chunk = ((frontier.len() + threads * 8 - 1) / (threads * 8)).max(1);
        let chunks: Vec<&[(Fp, Vec<Ev>)]> = frontier.chunks(chunk).collect();
        let results: Vec<Vec<Expansion>> = par_map(chunks.len(), threads, |ci| chunks[ci].iter().map(|(_, h)| expand(cfg, h, opts)).collect());
        let mut next: BTreeMap<Fp, Vec<Ev>> = BTreeMap::new();
        let mut idx = 0;
        for exps in results {
            for ex in exps {
                let (fp, hist) = &frontier[idx];
                idx += 1;
                visited.get_mut(fp).unwrap().sig = Some(ex.sig());
                stats.transitions += ex.succ.len() as u64;
                stats.replays += ex.replays as u64;
                stats.events_executed += ex.events;
                stats.handoffs_checked += ex.handoffs as u64;
                stats.probes += ex.probes as u64;
                stats.spurious_probes += ex.spurious_probes as u64;
                if ex.quiescent {
                    stats.quiescent_states += 1;
                    if stats.sample_histories.len() < 3 && hist.len() >= 6 {
                        stats.sample_histories.push(hist_text(hist));
                    }
                }
                for vv in &ex.state_viols {
                    if opts.props.contains(&vv.prop) {
                        found.entry((vv.prop, vv.sub)).or_insert_with(|| Found { viol: vv.clone(), hist: hist.clone() });
                    }
                }
                for s in &ex.succ {
                    let mut h2 = hist.clone();
                    h2.push(s.ev);
                    let mut violating = false;
                    for vv in &s.viols {
                        if opts.props.contains(&vv.prop) {
                            violating = true;
                            let e = found.entry((vv.prop, vv.sub));
                            match e {
                                std::collections::btree_map::Entry::Vacant(x) => {
                                    x.insert(Found { viol: vv.clone(), hist: h2.clone() });
                                }
                                std::collections::btree_map::Entry::Occupied(mut x) => {
                                    let cur = x.get();
                                    if (h2.len(), &h2) < (cur.hist.len(), &cur.hist) {
                                        x.insert(Found { viol: vv.clone(), hist: h2.clone() });
                                    }
                                }
                            }
                        }
                    }
                    if violating {
                        stats.pruned += 1;
                        continue;
                    }
                    if visited.contains_key(&s.fp) {
                        stats.merges += 1;
                        merge_counter += 1;
                        if merge_counter % opts.audit_every == 0 {
                            audits.push((s.fp, h2));
                        }
                    } else {
                        match next.get_mut(&s.fp) {
                            None => {
                                next.insert(s.fp, h2);
                            }
                            Some(cur) => {
                                stats.merges += 1;
                                merge_counter += 1;
                                // keep the smallest history as representative, audit the other
                                let other = if h2 < *cur { std::mem::replace(cur, h2) } else { h2 };
                                if merge_counter % opts.audit_every == 0 {
                                    audits.push((s.fp, other));
                                }
                            }
                        }
                    }
                }
            }
        }
        // register the next level
        for fp in next.keys() {
            visited.insert(*fp, Info { sig: None });
        }
        stats.states += next.len() as u64;
        // run the audits whose representative has been expanded
        let (ready, later): (Vec<_>, Vec<_>) = audits.into_iter().partition(|(fp, _)| visited.get(fp).map(|i| i.sig.is_some()).unwrap_or(false));
        audits = later;
        if !ready.is_empty() {
            let chunk = ((ready.len() + threads * 8 - 1) / (threads * 8)).max(1);
            let chunks: Vec<&[(Fp, Vec<Ev>)]> = ready.chunks(chunk).collect();
            let sigs: Vec<Vec<(u64, u32, u64)>> = par_map(chunks.len(), threads, |ci| {
                chunks[ci]
                    .iter()
                    .map(|(_, h)| {
                        let ex = expand(cfg, h, opts);
                        (ex.sig(), ex.replays, ex.events)
                    })
                    .collect()
            });
            let mut i = 0;
            for ss in sigs {
                for (sig, replays, events) in ss {
                    let (fp, h) = &ready[i];
                    i += 1;
                    stats.merge_audits += 1;
                    stats.replays += replays as u64;
                    stats.events_executed += events;
                    if visited[fp].sig != Some(sig) {
                        stats.audit_failures += 1;
                        if audit_failure_witness.is_none() {
                            audit_failure_witness = Some(hist_text(h));
                        }
                    }
                }
            }
        }
        frontier = next.into_iter().collect();
        depth += 1;
        if let Some(md) = cfg.max_depth {
            if depth >= md && !frontier.is_empty() {
                // depth bound reached: states at depth `md` are checked (as successors) but not expanded
                stats.depth_bound_hit = Some(md);
                stats.unexpanded_at_bound = frontier.len() as u64;
                break;
            }
        }
        let wall = t0.elapsed().as_secs_f64();
        if stats.states as usize > opts.max_states {
            stats.capped = Some(format!("state cap {} hit at depth {depth}; every state up to depth {} was expanded", opts.max_states, depth - 1));
            break;
        }
        if wall > opts.max_wall_s {
            stats.capped = Some(format!("wall cap {:.0}s hit at depth {depth}; every state up to depth {} was expanded", opts.max_wall_s, depth - 1));
            break;
        }
    }
    // leftover audits (representatives that were never expanded because of a cap)
    if stats.capped.is_none() {
        for (fp, h) in &audits {
            if visited[fp].sig.is_none() {
                continue; // representative lies on the depth bound and was not expanded
            }
            let ex = expand(cfg, h, opts);
            stats.merge_audits += 1;
            if visited[fp].sig != Some(ex.sig()) {
                stats.audit_failures += 1;
                if audit_failure_witness.is_none() {
                    audit_failure_witness = Some(hist_text(h));
                }
            }
        }
    }
    stats.wall_s = t0.elapsed().as_secs_f64();
    Outcome {
        stats,
        found: found.into_values().collect(),
        audit_failure_witness,
        fps: if opts.collect_states { visited.keys().copied().collect() } else { Default::default() },
        reps,
    }
}
