//! Thread-local world and the harness implementations of the public traits
//! (`Transport`, `Protocol`, `Connection` + `PoolableConnection`, `PoolableStream`, inner `Service`).
//! Everything that crosses into hyperdriver is an index into the world, so it is `Send`.

use hyperdriver::client::conn::connection::ConnectionError;
use hyperdriver::client::conn::protocol::HttpProtocol;
use hyperdriver::client::conn::{Connection, ProtocolRequest};
use hyperdriver::client::pool::{PoolableConnection, PoolableStream, Pooled};
use hyperdriver::info::{ConnectionInfo, HasConnectionInfo};
use hyperdriver::service::ExecuteRequest;
use hyperdriver::Body;
use std::cell::{Cell, RefCell};
use std::sync::{Arc, Mutex};
use std::fmt;
use std::future::Future;
use std::pin::Pin;
use std::task::{Context, Poll, Waker};

#[derive(Clone, Copy, Debug, PartialEq, Eq, Hash, PartialOrd, Ord)]
pub enum Actor {
    None,
    Req(u8),
    Bg(u8),
}

#[derive(Clone, Copy, Debug, PartialEq, Eq, Hash)]
pub enum DialStage {
    Connecting,
    ConnectFailed,
    /// transport resolved, stream handed out / handshake may be pending
    Connected,
    HsPending,
    HsFailed,
    HsOk,
    /// connection object created
    Done,
    /// error delivered to the owner
    FailedDelivered,
}

#[derive(Debug)]
pub struct Dial {
    pub origin: String,
    pub owner: Actor,
    pub owner_h2: bool,
    pub stage: DialStage,
    pub waker: Option<Waker>,
    /// the future / stream representing this dial was dropped before producing a connection
    pub dropped: bool,
    pub started_step: u32,
    pub conn: Option<usize>,
}

#[derive(Debug)]
pub struct ConnState {
    pub origin: String,
    pub h2: bool,
    pub open: bool,
    pub busy: bool,
    pub upgraded: bool,
    pub handles: i32,
    pub holders: i32,
    pub ready_wakers: Vec<Waker>,
    pub created_step: u32,
    pub close_step: Option<u32>,
    /// position of the close in the global sequence (orders it against wake-ups inside one concurrent step)
    pub close_seq: Option<u64>,
    pub last_handback_step: Option<u32>,
    pub ever_pooled: bool,
    pub from_dial: usize,
    pub handoffs: u32,
    pub next_handle: u32,
}

#[derive(Debug, Clone)]
pub struct Handoff {
    pub req: u8,
    pub conn: usize,
    pub step: u32,
    pub busy_at: bool,
    pub holders_at: i32,
    pub open_at: bool,
    pub upgraded_at: bool,
    pub handles_at: i32,
    pub reused_flag: bool,
}

#[derive(Debug)]
pub struct Exchange {
    pub req: u8,
    pub conn: usize,
    pub responded: bool,
    pub delivered: bool,
    pub dropped: bool,
    pub waker: Option<Waker>,
}

#[derive(Default, Debug)]
pub struct World {
    pub step: u32,
    pub split_handshake: bool,
    /// is_open() == open && !busy (mirrors HttpConnection) when true; == open when false
    pub strict_is_open: bool,
    /// the inner service polls the connection it was handed for readiness before it sends (as a
    /// tower service that honours `poll_ready` does; the stock request executor does not)
    pub exec_polls_ready: bool,
    /// the protocol only yields HTTP/1.1 connections, whatever version the request asked for (as when
    /// ALPN settles on http/1.1)
    pub h1_only_protocol: bool,
    pub dials: Vec<Dial>,
    pub conns: Vec<ConnState>,
    pub handoffs: Vec<Handoff>,
    pub exchanges: Vec<Exchange>,
    /// observations emitted by the current step (compared in the merge audit)
    pub obs: Vec<String>,
    /// (conn, actor) for every poll_ready call in the current step
    pub ready_polls: Vec<(usize, Actor)>,
    pub request_h2: Vec<bool>,
}

/// The world of the execution running on this thread. It is a shared handle so that the helper
/// threads of the interleaving engine (`conc.rs`) can be given the world of the worker they
/// belong to; only one of those threads runs at any time (baton passing), so the mutex is never
/// contended.
pub type WorldHandle = Arc<Mutex<World>>;

thread_local! {
    static WORLD: RefCell<WorldHandle> = RefCell::new(Arc::new(Mutex::new(World::default())));
    static ACTOR: Cell<Option<Actor>> = const { Cell::new(None) };
}

pub fn with<R>(f: impl FnOnce(&mut World) -> R) -> R {
    WORLD.with(|w| {
        let h = w.borrow();
        let mut g = h.lock().unwrap_or_else(|e| e.into_inner());
        f(&mut g)
    })
}

/// Like `with`, but a no-op when the thread-local is already gone (thread teardown).
fn try_with(f: impl FnOnce(&mut World)) {
    let _ = WORLD.try_with(|w| {
        if let Ok(h) = w.try_borrow() {
            let mut g = h.lock().unwrap_or_else(|e| e.into_inner());
            f(&mut g)
        }
    });
}

/// This thread's world handle (to be installed on a helper thread).
pub fn handle() -> WorldHandle {
    WORLD.with(|w| w.borrow().clone())
}

/// Make this thread use another thread's world.
pub fn install(h: WorldHandle) {
    WORLD.with(|w| *w.borrow_mut() = h);
}

/// Who is calling into the library on this thread (attribution of dials and readiness polls).
pub fn set_actor(a: Option<Actor>) {
    ACTOR.with(|c| c.set(a));
}

fn actor() -> Actor {
    ACTOR.with(|c| c.get()).unwrap_or(Actor::None)
}

// ---------------------------------------------------------------------------------------------
// Transport

#[derive(Clone, Debug, Default)]
pub struct HTransport;

#[derive(Debug)]
pub struct HError(pub &'static str);
impl fmt::Display for HError {
    fn fmt(&self, f: &mut fmt::Formatter<'_>) -> fmt::Result {
        write!(f, "{}", self.0)
    }
}
impl std::error::Error for HError {}

pub struct DialFuture {
    d: usize,
    finished: bool,
}

pub fn origin_of(uri: &http::Uri) -> String {
    format!(
        "{}://{}",
        uri.scheme_str().unwrap_or("-"),
        uri.authority().map(|a| a.as_str()).unwrap_or("-")
    )
}

impl tower::Service<http::request::Parts> for HTransport {
    type Response = HStream;
    type Error = HError;
    type Future = DialFuture;
    fn poll_ready(&mut self, _: &mut Context<'_>) -> Poll<Result<(), HError>> {
        Poll::Ready(Ok(()))
    }
    fn call(&mut self, parts: http::request::Parts) -> DialFuture {
        let a = actor();
        let d = with(|w| {
            let owner_h2 = parts.version == http::Version::HTTP_2;
            let d = w.dials.len();
            let step = w.step;
            w.dials.push(Dial {
                origin: origin_of(&parts.uri),
                owner: a,
                owner_h2,
                stage: DialStage::Connecting,
                waker: None,
                dropped: false,
                started_step: step,
                conn: None,
            });
            w.obs.push(format!("dial-start d{d} by {a:?} for {}", origin_of(&parts.uri)));
            d
        });
        DialFuture { d, finished: false }
    }
}

impl Future for DialFuture {
    type Output = Result<HStream, HError>;
    fn poll(mut self: Pin<&mut Self>, cx: &mut Context<'_>) -> Poll<Self::Output> {
        let d = self.d;
        let r = with(|w| {
            let dial = &mut w.dials[d];
            match dial.stage {
                DialStage::Connecting => {
                    dial.waker = Some(cx.waker().clone());
                    Poll::Pending
                }
                DialStage::ConnectFailed => {
                    dial.stage = DialStage::FailedDelivered;
                    Poll::Ready(Err(HError("connect refused")))
                }
                DialStage::Connected => Poll::Ready(Ok(HStream { d, consumed: false })),
                s => panic!("dial future polled in stage {s:?}"),
            }
        });
        if r.is_ready() {
            self.finished = true;
        }
        r
    }
}

impl Drop for DialFuture {
    fn drop(&mut self) {
        if !self.finished {
            let d = self.d;
            with(|w| {
                w.dials[d].dropped = true;
                w.obs.push(format!("dial-dropped d{d}"));
            });
        }
    }
}

#[derive(Debug)]
pub struct HStream {
    d: usize,
    consumed: bool,
}

impl Drop for HStream {
    fn drop(&mut self) {
        if !self.consumed {
            let d = self.d;
            with(|w| {
                w.dials[d].dropped = true;
                w.obs.push(format!("stream-dropped d{d}"));
            });
        }
    }
}

#[derive(Debug, Default, Clone)]
pub struct HAddr;
impl fmt::Display for HAddr {
    fn fmt(&self, f: &mut fmt::Formatter<'_>) -> fmt::Result {
        write!(f, "harness")
    }
}

impl HasConnectionInfo for HStream {
    type Addr = HAddr;
    fn info(&self) -> ConnectionInfo<HAddr> {
        ConnectionInfo::default()
    }
}

impl PoolableStream for HStream {
    fn can_share(&self) -> bool {
        false
    }
}

// ---------------------------------------------------------------------------------------------
// Protocol

#[derive(Clone, Debug, Default)]
pub struct HProtocol;

pub struct HandshakeFuture {
    d: usize,
    h2: bool,
    finished: bool,
}

impl tower::Service<ProtocolRequest<HStream, Body>> for HProtocol {
    type Response = HConn;
    type Error = ConnectionError;
    type Future = HandshakeFuture;
    fn poll_ready(&mut self, _: &mut Context<'_>) -> Poll<Result<(), ConnectionError>> {
        Poll::Ready(Ok(()))
    }
    fn call(&mut self, req: ProtocolRequest<HStream, Body>) -> HandshakeFuture {
        let mut stream = req.transport;
        stream.consumed = true;
        let d = stream.d;
        let h2 = req.version == HttpProtocol::Http2 && !with(|w| w.h1_only_protocol);
        with(|w| {
            w.dials[d].stage = if w.split_handshake {
                DialStage::HsPending
            } else {
                DialStage::HsOk
            };
        });
        HandshakeFuture {
            d,
            h2,
            finished: false,
        }
    }
}

impl Future for HandshakeFuture {
    type Output = Result<HConn, ConnectionError>;
    fn poll(mut self: Pin<&mut Self>, cx: &mut Context<'_>) -> Poll<Self::Output> {
        let d = self.d;
        let h2 = self.h2;
        let r = with(|w| {
            let stage = w.dials[d].stage;
            match stage {
                DialStage::HsPending => {
                    w.dials[d].waker = Some(cx.waker().clone());
                    Poll::Pending
                }
                DialStage::HsFailed => {
                    w.dials[d].stage = DialStage::FailedDelivered;
                    Poll::Ready(Err(ConnectionError::Handshake(Box::new(HError("handshake failed")))))
                }
                DialStage::HsOk => {
                    let c = w.conns.len();
                    let step = w.step;
                    let origin = w.dials[d].origin.clone();
                    w.conns.push(ConnState {
                        origin,
                        h2,
                        open: true,
                        busy: false,
                        upgraded: false,
                        handles: 1,
                        holders: 0,
                        ready_wakers: vec![],
                        created_step: step,
                        close_step: None,
                        close_seq: None,
                        last_handback_step: None,
                        ever_pooled: false,
                        from_dial: d,
                        handoffs: 0,
                        next_handle: 1,
                    });
                    w.dials[d].stage = DialStage::Done;
                    w.dials[d].conn = Some(c);
                    w.obs.push(format!("conn-created c{c} from d{d} h2={h2}"));
                    Poll::Ready(Ok(HConn { c, h: 0 }))
                }
                s => panic!("handshake future polled in stage {s:?}"),
            }
        });
        if r.is_ready() {
            self.finished = true;
        }
        r
    }
}

impl Drop for HandshakeFuture {
    fn drop(&mut self) {
        if !self.finished {
            let d = self.d;
            with(|w| {
                w.dials[d].dropped = true;
                w.obs.push(format!("handshake-dropped d{d}"));
            });
        }
    }
}

// ---------------------------------------------------------------------------------------------
// Connection

pub struct HConn {
    pub c: usize,
    pub h: u32,
}

// The handle serial `h` is the harness's own label; it must not show in the pool's Debug text,
// which is part of the canonical state.
impl fmt::Debug for HConn {
    fn fmt(&self, f: &mut fmt::Formatter<'_>) -> fmt::Result {
        write!(f, "HConn(c{})", self.c)
    }
}

impl Drop for HConn {
    fn drop(&mut self) {
        let c = self.c;
        // The world may already be gone during thread-local teardown; ignore then.
        try_with(|w| {
            if let Some(cs) = w.conns.get_mut(c) {
                cs.handles -= 1;
            }
        });
    }
}

pub struct NeverFuture;
impl Future for NeverFuture {
    type Output = Result<http::Response<Body>, HError>;
    fn poll(self: Pin<&mut Self>, _: &mut Context<'_>) -> Poll<Self::Output> {
        panic!("harness connection send_request future is never polled")
    }
}

impl Connection<Body> for HConn {
    type ResBody = Body;
    type Error = HError;
    type Future = NeverFuture;
    fn send_request(&mut self, _request: http::Request<Body>) -> NeverFuture {
        NeverFuture
    }
    fn poll_ready(&mut self, cx: &mut Context<'_>) -> Poll<Result<(), HError>> {
        let c = self.c;
        let a = actor();
        with(|w| {
            w.ready_polls.push((c, a));
            let cs = &mut w.conns[c];
            if !cs.open {
                Poll::Ready(Err(HError("connection closed")))
            } else if cs.busy {
                cs.ready_wakers.push(cx.waker().clone());
                Poll::Pending
            } else {
                Poll::Ready(Ok(()))
            }
        })
    }
    fn version(&self) -> http::Version {
        let c = self.c;
        if with(|w| w.conns[c].h2) {
            http::Version::HTTP_2
        } else {
            http::Version::HTTP_11
        }
    }
}

impl PoolableConnection<Body> for HConn {
    fn is_open(&self) -> bool {
        let c = self.c;
        with(|w| {
            let cs = &w.conns[c];
            if w.strict_is_open {
                cs.open && !cs.busy
            } else {
                cs.open
            }
        })
    }
    fn can_share(&self) -> bool {
        let c = self.c;
        with(|w| w.conns[c].h2)
    }
    fn reuse(&mut self) -> Option<Self> {
        let c = self.c;
        with(|w| {
            let cs = &mut w.conns[c];
            if cs.h2 {
                cs.handles += 1;
                let h = cs.next_handle;
                cs.next_handle += 1;
                Some(HConn { c, h })
            } else {
                None
            }
        })
    }
}

// ---------------------------------------------------------------------------------------------
// Inner service: the hand-off recorder

#[derive(Clone, Debug, Default)]
pub struct Recorder;

pub struct ExchangeFuture {
    x: usize,
    _pooled: Pooled<HConn, Body>,
}

impl tower::Service<ExecuteRequest<Pooled<HConn, Body>, Body>> for Recorder {
    type Response = http::Response<Body>;
    type Error = hyperdriver::client::Error;
    type Future = ExchangeFuture;
    fn poll_ready(&mut self, _: &mut Context<'_>) -> Poll<Result<(), Self::Error>> {
        Poll::Ready(Ok(()))
    }
    fn call(&mut self, req: ExecuteRequest<Pooled<HConn, Body>, Body>) -> ExchangeFuture {
        let (mut pooled, request) = req.into_parts();
        if with(|w| w.exec_polls_ready) {
            let waker = std::task::Waker::noop();
            let mut cx = Context::from_waker(waker);
            let ready = Connection::poll_ready(&mut pooled, &mut cx);
            with(|w| {
                w.ready_polls.pop();
                w.obs.push(format!("exec-poll-ready {}", if matches!(ready, Poll::Ready(Ok(()))) { "ready" } else { "not-ready" }));
            });
        }
        let r: u8 = request
            .uri()
            .path()
            .trim_start_matches("/r")
            .parse()
            .expect("request id in path");
        let c = pooled.c;
        let reused_flag = pooled.is_reused();
        let x = with(|w| {
            let step = w.step;
            let cs = &mut w.conns[c];
            let h = Handoff {
                req: r,
                conn: c,
                step,
                busy_at: cs.busy,
                holders_at: cs.holders,
                open_at: cs.open,
                upgraded_at: cs.upgraded,
                handles_at: cs.handles,
                reused_flag,
            };
            cs.holders += 1;
            cs.handoffs += 1;
            if !cs.h2 {
                cs.busy = true;
            }
            w.obs.push(format!("handoff r{r} <- c{c} busy={} holders={} open={}", h.busy_at, h.holders_at, h.open_at));
            w.handoffs.push(h);
            let x = w.exchanges.len();
            w.exchanges.push(Exchange {
                req: r,
                conn: c,
                responded: false,
                delivered: false,
                dropped: false,
                waker: None,
            });
            x
        });
        ExchangeFuture { x, _pooled: pooled }
    }
}

impl Future for ExchangeFuture {
    type Output = Result<http::Response<Body>, hyperdriver::client::Error>;
    fn poll(self: Pin<&mut Self>, cx: &mut Context<'_>) -> Poll<Self::Output> {
        let x = self.x;
        with(|w| {
            let e = &mut w.exchanges[x];
            if e.responded {
                e.delivered = true;
                Poll::Ready(Ok(http::Response::new(Body::empty())))
            } else {
                e.waker = Some(cx.waker().clone());
                Poll::Pending
            }
        })
    }
}

impl Drop for ExchangeFuture {
    fn drop(&mut self) {
        let x = self.x;
        try_with(|w| {
            if let Some(e) = w.exchanges.get_mut(x) {
                e.dropped = true;
                let c = e.conn;
                w.conns[c].holders -= 1;
            }
        });
    }
}
