//! C19, composition: the real client with a request timeout (TimeoutLayer above the pool) against a
//! real server, in paused virtual time under the deterministic executor. Advancing the clock past
//! the deadline is an environment event available at every scheduling point, so the deadline fires
//! at every stage a pooled request can be in; afterwards a probe request to the origin must succeed.

use super::c01::route;
use super::common::*;
use crate::det::{explore, Execution, Sched};
use hyperdriver::server::AutoBuilder;
use hyperdriver::stream::duplex;
use hyperdriver::{Body, Server};
use std::collections::BTreeSet;
use std::time::Duration;

#[derive(Clone, Debug)]
pub struct Scn {
    pub name: &'static str,
    pub victims: Vec<bool>, // h2?
    pub preempt: bool,
}

#[derive(Debug, Clone)]
pub struct Outcome {
    pub viols: Vec<(String, String)>,
    pub trace: String,
    pub schedule: Vec<String>,
}

pub fn run_one(rt: &tokio::runtime::Runtime, scn: &Scn, schedule: &[usize]) -> Execution<Outcome> {
    rt.block_on(async {
        let mut s = Sched::new(schedule.to_vec());
        let obs = new_obs();
        let (ca, ia) = duplex::pair();
        {
            let obs_h = obs.clone();
            let exec = s.exec.clone();
            let svc = tower::service_fn(move |req: http::Request<Body>| handler(obs_h.clone(), "A", req));
            let server = Server::builder().with_acceptor(ia).with_shared_service(svc).with_protocol(AutoBuilder::new(exec.clone())).with_executor(exec);
            s.spawn("serverA", async move {
                let _ = server.await;
            });
        }
        let mut pool = hyperdriver::client::PoolConfig::default();
        pool.continue_after_preemption = scn.preempt;
        let client = hyperdriver::Client::builder().with_auto_http().with_transport(route(ca.clone(), ca.clone(), 1024)).with_pool(pool).with_timeout(Duration::from_secs(1)).without_tls().build();
        let issued_at = tokio::time::Instant::now();
        let mut victims = vec![];
        for (i, h2) in scn.victims.iter().enumerate() {
            let id = (i + 1) as u32;
            let mut c = client.clone();
            let obs = obs.clone();
            let h2 = *h2;
            let tid = s.spawn(&format!("req{id}"), async move {
                let req = http::Request::builder().method("POST").uri(format!("http://a.test/r{id}?q={id}")).version(if h2 { http::Version::HTTP_2 } else { http::Version::HTTP_11 }).header("x-id", id.to_string()).body(Body::from(req_body(id))).unwrap();
                let r = c.request(req).await;
                let t = tokio::time::Instant::now().duration_since(issued_at);
                let out = match r {
                    Ok(resp) => collect_response(resp).await,
                    Err(e) => Err(format!("{e} @{}ms", t.as_millis())),
                };
                obs.lock().unwrap().responses.insert(id, out);
            });
            victims.push(tid);
        }
        // the deadline: virtual time jumps past the configured timeout
        let v2 = victims.clone();
        s.env("deadline", false, move |s| v2.iter().any(|t| !s.task_done(*t)), |s| s.pause_request = Some(Duration::from_millis(1500)));
        // afterwards: a fresh request to the same origin (its own 1 s budget starts when it is issued)
        let c2 = client.clone();
        let obs_p = obs.clone();
        let h2_probe = scn.victims.iter().any(|h| *h);
        let v3 = victims.clone();
        s.env("probe", true, move |s| v3.iter().all(|t| s.task_done(*t)), move |s| {
            let mut c = c2;
            s.spawn("probe", async move {
                let req = http::Request::builder().method("POST").uri("http://a.test/r50?q=50").version(if h2_probe { http::Version::HTTP_2 } else { http::Version::HTTP_11 }).header("x-id", "50").body(Body::from(req_body(50))).unwrap();
                let out = match c.request(req).await {
                    Ok(resp) => collect_response(resp).await,
                    Err(e) => Err(e.to_string()),
                };
                obs_p.lock().unwrap().responses.insert(50, out);
            });
        });
        drop(client);
        loop {
            s.run();
            match s.pause_request.take() {
                Some(d) => tokio::time::advance(d).await,
                None => break,
            }
        }
        let mut viols = vec![];
        {
            let o = obs.lock().unwrap();
            if let Some(m) = &s.replay_error {
                viols.push(("machinery".into(), m.clone()));
            }
            if s.livelock {
                viols.push(("livelock".into(), "execution did not quiesce".into()));
            }
            for (t, p) in s.panics() {
                viols.push(("panic".into(), format!("task {t} panicked: {p}")));
            }
            let deadline_fired = s.points.iter().any(|p| p.what == "env deadline");
            for (i, _) in scn.victims.iter().enumerate() {
                let id = (i + 1) as u32;
                match o.responses.get(&id) {
                    Some(Ok(r)) if *r == expected_resp(id, "A") => {}
                    Some(Err(e)) if e.contains("request timeout") && deadline_fired => {
                        // must have been delivered at the deadline, not later
                        if !e.contains("@1500ms") {
                            viols.push(("timeout-late".into(), format!("request {id} timed out at {e}, the clock stood at 1500ms when the deadline passed")));
                        }
                    }
                    // a request that relied on another request's attempt is released with an error when
                    // that request is dropped at the deadline: the inner result, returned unchanged
                    Some(Err(e)) if e.contains("pool closed") && deadline_fired => {}
                    None => viols.push(("request-unresolved".into(), format!("request {id} neither completed nor timed out (deadline fired: {deadline_fired})"))),
                    other => viols.push(("request-failed".into(), format!("request {id} saw {other:?}"))),
                }
            }
            match o.responses.get(&50) {
                Some(Ok(r)) if *r == expected_resp(50, "A") => {}
                other => viols.push(("probe-blocked".into(), format!("a request issued after the timed-out one(s) saw {other:?}"))),
            }
        }
        let o = obs.lock().unwrap();
        let trace = format!("{:?}", o.responses.iter().map(|(k, v)| (*k, v.as_ref().map(|r| r.status).map_err(|e| e.clone()))).collect::<Vec<_>>());
        drop(o);
        let schedule_text = s.schedule_text();
        let points = s.points.clone();
        s.teardown();
        drop(ca);
        Execution { points, outcome: Outcome { viols, trace, schedule: schedule_text } }
    })
}

pub fn scenarios() -> Vec<Scn> {
    vec![
        Scn { name: "h1-one", victims: vec![false], preempt: true },
        Scn { name: "h2-one", victims: vec![true], preempt: true },
        Scn { name: "h2-two-sharing-a-dial", victims: vec![true, true], preempt: true },
        Scn { name: "h2-two-no-continue", victims: vec![true, true], preempt: false },
        Scn { name: "h1-two", victims: vec![false, false], preempt: true },
    ]
}

/// (executions, distinct traces, violations (sig, msg, replay), machinery error)
pub fn run_all(thorough: bool) -> (u64, u64, Vec<(String, String, serde_json::Value)>, Option<String>) {
    let scns = scenarios();
    let results = crate::evidence::par_map(scns.len(), crate::evidence::n_threads(), |i| {
        let rt = tokio::runtime::Builder::new_current_thread().enable_time().start_paused(true).build().unwrap();
        let scn = &scns[i];
        let bound = if thorough { 3 } else { 2 };
        let mut traces = BTreeSet::new();
        let mut found: Vec<(String, String, Vec<usize>)> = vec![];
        crate::evidence::watchdog::set_context(serde_json::json!({"engine":"c19-e2e","scenario":scn.name}));
        let stats = explore(bound, if thorough { 500_000 } else { 40_000 }, |prefix| run_one(&rt, scn, prefix), |prefix, _d, ex| {
            traces.insert(ex.outcome.trace.clone());
            for (sub, msg) in &ex.outcome.viols {
                if !found.iter().any(|f| f.0 == *sub) {
                    found.push((sub.clone(), format!("{msg}; schedule {:?}", ex.outcome.schedule), prefix.to_vec()));
                }
            }
            true
        });
        (stats.executions, traces.len(), found)
    });
    let mut n = 0;
    let mut d = 0;
    let mut v = vec![];
    let mut mach = None;
    for (i, (e, t, found)) in results.into_iter().enumerate() {
        n += e;
        d += t as u64;
        for (sub, msg, prefix) in found {
            if sub == "machinery" {
                mach = Some(msg);
                continue;
            }
            v.push((format!("timeout-composition {sub} scenario={}", scns[i].name), format!("{msg}; scenario {}", scns[i].name), serde_json::json!({"engine":"c19-e2e","scenario":scns[i].name,"schedule":prefix})));
        }
    }
    (n, d, v, mach)
}
