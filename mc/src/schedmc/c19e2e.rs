//! C19, composition: the real client with a request timeout (TimeoutLayer above the pool) against a
//! real server, in paused virtual time under the deterministic executor. Advancing the clock past
//! the deadline is an environment event available at every scheduling point, so the deadline fires
//! at every stage a pooled request can be in; afterwards a probe request to the origin must succeed.

use super::c01::route;
use super::common::*;
use crate::det::{explore, Execution, Sched};
use hyperdriver::server::AutoBuilder;
use hyperdriver::stream::duplex;
use hyperdriver::{Body, Server};
use std::collections::BTreeSet;
use std::time::Duration;

/// Counts the polls of the request future that happen once its 1 s budget is used up.
struct PastDeadline<F> {
    inner: std::pin::Pin<Box<F>>,
    t0: Option<tokio::time::Instant>,
    polls_past: std::sync::Arc<std::sync::atomic::AtomicU32>,
}

impl<F: std::future::Future> std::future::Future for PastDeadline<F> {
    type Output = F::Output;
    fn poll(mut self: std::pin::Pin<&mut Self>, cx: &mut std::task::Context<'_>) -> std::task::Poll<F::Output> {
        let now = tokio::time::Instant::now();
        let t0 = *self.t0.get_or_insert(now);
        if now.duration_since(t0) >= Duration::from_millis(1000) {
            self.polls_past.fetch_add(1, std::sync::atomic::Ordering::SeqCst);
        }
        self.inner.as_mut().poll(cx)
    }
}

#[derive(Clone, Debug)]
pub struct Scn {
    pub name: &'static str,
    pub victims: Vec<bool>, // h2?
    pub preempt: bool,
    /// the first answer is a redirect (307, same origin) which the client follows; the clock is moved in
    /// two steps of 600 ms instead of one of 1500 ms, so that the deadline can fall into the second hop
    pub redirect: bool,
}

#[derive(Debug, Clone)]
pub struct Outcome {
    pub viols: Vec<(String, String)>,
    pub trace: String,
    pub schedule: Vec<String>,
}

pub fn run_one(rt: &tokio::runtime::Runtime, scn: &Scn, schedule: &[usize]) -> Execution<Outcome> {
    rt.block_on(async {
        let mut s = Sched::new(schedule.to_vec());
        let obs = new_obs();
        let (ca, ia) = duplex::pair();
        {
            let obs_h = obs.clone();
            let exec = s.exec.clone();
            let svc = tower::service_fn(move |req: http::Request<Body>| {
                let obs_h = obs_h.clone();
                async move {
                    if req.uri().path().starts_with("/hop1-") {
                        let id = req.uri().path().trim_start_matches("/hop1-").to_string();
                        yield_now().await;
                        return Ok(http::Response::builder().status(302).header("date", FIXED_DATE).header("location", format!("/r{id}?q={id}")).body(ChunkBody::new(&[])).unwrap());
                    }
                    handler(obs_h, "A", req).await
                }
            });
            let server = Server::builder().with_acceptor(ia).with_shared_service(svc).with_protocol(AutoBuilder::new(exec.clone())).with_executor(exec);
            s.spawn("serverA", async move {
                let _ = server.await;
            });
        }
        let mut pool = hyperdriver::client::PoolConfig::default();
        pool.continue_after_preemption = scn.preempt;
        let client = hyperdriver::Client::builder().with_auto_http().with_transport(route(ca.clone(), ca.clone(), 1024)).with_pool(pool).with_timeout(Duration::from_secs(1)).with_standard_redirect_policy().without_tls().build();
        let mut victims = vec![];
        for (i, h2) in scn.victims.iter().enumerate() {
            let id = (i + 1) as u32;
            let mut c = client.clone();
            let obs = obs.clone();
            let h2 = *h2;
            let redirect = scn.redirect;
            let first_path = if scn.redirect { format!("hop1-{id}") } else { format!("r{id}?q={id}") };
            let tid = s.spawn(&format!("req{id}"), async move {
                let req = http::Request::builder().method(if redirect { "GET" } else { "POST" }).uri(format!("http://a.test/{first_path}")).version(if h2 { http::Version::HTTP_2 } else { http::Version::HTTP_11 }).header("x-id", id.to_string()).body(if redirect { Body::empty() } else { Body::from(req_body(id)) }).unwrap();
                // the request future is lazy: its clock starts when it is first polled, which is here
                let issued_at = tokio::time::Instant::now();
                let polls_past = std::sync::Arc::new(std::sync::atomic::AtomicU32::new(0));
                let r = PastDeadline { inner: Box::pin(c.request(req)), t0: None, polls_past: polls_past.clone() }.await;
                let t = tokio::time::Instant::now().duration_since(issued_at);
                let out = match r {
                    Ok(resp) => collect_response(resp).await,
                    Err(e) => Err(format!("{e} @{}ms", t.as_millis())),
                };
                let mut o = obs.lock().unwrap();
                // virtual instant at which the caller had its answer (head) in hand
                o.notes.push(format!("polls-past-deadline {id} ={}", polls_past.load(std::sync::atomic::Ordering::SeqCst)));
                o.responses.insert(id, out);
            });
            victims.push(tid);
        }
        // the deadline: virtual time jumps past the configured timeout
        let v2 = victims.clone();
        if scn.redirect {
            let v2b = victims.clone();
            s.env("advance-600-a", false, move |s| v2.iter().any(|t| !s.task_done(*t)), |s| s.pause_request = Some(Duration::from_millis(600)));
            s.env("deadline", false, move |s| s.points.iter().any(|p| p.what == "env advance-600-a") && v2b.iter().any(|t| !s.task_done(*t)), |s| s.pause_request = Some(Duration::from_millis(600)));
        } else {
            s.env("deadline", false, move |s| v2.iter().any(|t| !s.task_done(*t)), |s| s.pause_request = Some(Duration::from_millis(1500)));
        }
        // afterwards: a fresh request to the same origin (its own 1 s budget starts when it is issued)
        let c2 = client.clone();
        let obs_p = obs.clone();
        let h2_probe = scn.victims.iter().any(|h| *h);
        let v3 = victims.clone();
        s.env("probe", true, move |s| v3.iter().all(|t| s.task_done(*t)), move |s| {
            let mut c = c2;
            s.spawn("probe", async move {
                let req = http::Request::builder().method("POST").uri("http://a.test/r50?q=50").version(if h2_probe { http::Version::HTTP_2 } else { http::Version::HTTP_11 }).header("x-id", "50").body(Body::from(req_body(50))).unwrap();
                let out = match c.request(req).await {
                    Ok(resp) => collect_response(resp).await,
                    Err(e) => Err(e.to_string()),
                };
                obs_p.lock().unwrap().responses.insert(50, out);
            });
        });
        drop(client);
        loop {
            s.run();
            match s.pause_request.take() {
                Some(d) => tokio::time::advance(d).await,
                None => break,
            }
        }
        let mut viols = vec![];
        {
            let o = obs.lock().unwrap();
            if let Some(m) = &s.replay_error {
                viols.push(("machinery".into(), m.clone()));
            }
            if s.livelock {
                viols.push(("livelock".into(), "execution did not quiesce".into()));
            }
            for (t, p) in s.panics() {
                viols.push(("panic".into(), format!("task {t} panicked: {p}")));
            }
            let deadline_fired = s.points.iter().any(|p| p.what == "env deadline");
            let at_deadline = if scn.redirect { "@1200ms" } else { "@1500ms" };
            for (i, _) in scn.victims.iter().enumerate() {
                let id = (i + 1) as u32;
                // once its budget is used up the request resolves at its very next poll (with the inner result if
                // that is ready then, else with the timeout error): it is never left pending past the deadline
                if let Some(n) = o.notes.iter().find(|n| n.starts_with(&format!("polls-past-deadline {id} ="))) {
                    let k: u32 = n.rsplit('=').next().and_then(|x| x.parse().ok()).unwrap_or(0);
                    if k > 1 {
                        viols.push(("pending-past-deadline".into(), format!("request {id} (timeout 1 s) was polled {k} times after its deadline had passed before it resolved")));
                    }
                }
                match o.responses.get(&id) {
                    Some(Ok(r)) if *r == expected_resp(id, "A") => {}
                    Some(Ok(r)) if scn.redirect && r.status == 200 && r.echo_id == Some(id.to_string()) && r.body == format!("resp{id}@A:|tail").into_bytes() => {}
                    Some(Err(e)) if e.contains("request timeout") && deadline_fired => {
                        // must have been delivered at the deadline, not later
                        if !e.contains(at_deadline) {
                            viols.push(("timeout-late".into(), format!("request {id} timed out at {e}, the clock stood at {at_deadline} when the deadline passed")));
                        }
                    }
                    // a request that relied on another request's attempt is released with an error when
                    // that request is dropped at the deadline: the inner result, returned unchanged
                    Some(Err(e)) if e.contains("pool closed") && deadline_fired => {}
                    None => viols.push(("request-unresolved".into(), format!("request {id} neither completed nor timed out (deadline fired: {deadline_fired})"))),
                    other => viols.push(("request-failed".into(), format!("request {id} saw {other:?}"))),
                }
            }
            match o.responses.get(&50) {
                Some(Ok(r)) if *r == expected_resp(50, "A") => {}
                other => viols.push(("probe-blocked".into(), format!("a request issued after the timed-out one(s) saw {other:?}"))),
            }
        }
        let o = obs.lock().unwrap();
        let trace = format!("{:?}", o.responses.iter().map(|(k, v)| (*k, v.as_ref().map(|r| r.status).map_err(|e| e.clone()))).collect::<Vec<_>>());
        drop(o);
        let schedule_text = s.schedule_text();
        let points = s.points.clone();
        s.teardown();
        drop(ca);
        Execution { points, outcome: Outcome { viols, trace, schedule: schedule_text } }
    })
}

pub fn scenarios() -> Vec<Scn> {
    vec![
        Scn { name: "h1-one", victims: vec![false], preempt: true, redirect: false },
        Scn { name: "h2-one", victims: vec![true], preempt: true, redirect: false },
        Scn { name: "h2-two-sharing-a-dial", victims: vec![true, true], preempt: true, redirect: false },
        Scn { name: "h2-two-no-continue", victims: vec![true, true], preempt: false, redirect: false },
        Scn { name: "h1-two", victims: vec![false, false], preempt: true, redirect: false },
        // a followed redirect: the deadline covers both hops together
        Scn { name: "h1-redirect-followed", victims: vec![false], preempt: true, redirect: true },
        Scn { name: "h2-redirect-followed", victims: vec![true], preempt: true, redirect: true },
    ]
}

/// (executions, distinct traces, violations (sig, msg, replay), machinery error)
pub fn run_all(thorough: bool) -> (u64, u64, Vec<(String, String, serde_json::Value)>, Option<String>) {
    let scns = scenarios();
    let results = crate::evidence::par_map(scns.len(), crate::evidence::n_threads(), |i| {
        let rt = tokio::runtime::Builder::new_current_thread().enable_time().start_paused(true).build().unwrap();
        let scn = &scns[i];
        let bound = if thorough { 3 } else { 2 };
        let mut traces = BTreeSet::new();
        let mut found: Vec<(String, String, Vec<usize>)> = vec![];
        crate::evidence::watchdog::set_context(serde_json::json!({"engine":"c19-e2e","scenario":scn.name}));
        let stats = explore(bound, if thorough { 500_000 } else { 40_000 }, |prefix| run_one(&rt, scn, prefix), |prefix, _d, ex| {
            traces.insert(ex.outcome.trace.clone());
            for (sub, msg) in &ex.outcome.viols {
                if !found.iter().any(|f| f.0 == *sub) {
                    found.push((sub.clone(), format!("{msg}; schedule {:?}", ex.outcome.schedule), prefix.to_vec()));
                }
            }
            true
        });
        (stats.executions, traces.len(), found)
    });
    let mut n = 0;
    let mut d = 0;
    let mut v = vec![];
    let mut mach = None;
    for (i, (e, t, found)) in results.into_iter().enumerate() {
        n += e;
        d += t as u64;
        for (sub, msg, prefix) in found {
            if sub == "machinery" {
                mach = Some(msg);
                continue;
            }
            v.push((format!("timeout-composition {sub} scenario={}", scns[i].name), format!("{msg}; scenario {}", scns[i].name), serde_json::json!({"engine":"c19-e2e","scenario":scns[i].name,"schedule":prefix})));
        }
    }
    (n, d, v, mach)
}
