//! C08, end-to-end clause: a request answered by the auto-detecting server under every fragmentation
//! of its first bytes is answered exactly as the same request, unfragmented, by a single-protocol
//! server. Real hyper clients write through a fragmenting stream; real hyperdriver servers.

use super::common::*;
use crate::det::Sched;
use hyper::rt::Executor;
use hyperdriver::bridge::io::TokioIo;
use hyperdriver::server::conn::{http1, http2};
use hyperdriver::server::AutoBuilder;
use hyperdriver::stream::duplex::{self, DuplexStream};
use hyperdriver::{Body, Server};
use std::pin::Pin;
use std::task::{Context, Poll};
use tokio::io::{AsyncRead, AsyncWrite, ReadBuf};

/// Client-side stream that hands its first bytes to the peer in the given chunk sizes, yielding to
/// the scheduler after every chunk so that the server reads them one chunk at a time.
pub struct Fragmenting {
    inner: DuplexStream,
    /// remaining chunk sizes for the first bytes
    chunks: std::collections::VecDeque<usize>,
    left_in_chunk: usize,
    yield_next: bool,
}

impl Fragmenting {
    pub fn new(inner: DuplexStream, chunks: &[usize]) -> Self {
        let mut q: std::collections::VecDeque<usize> = chunks.iter().copied().collect();
        let first = q.pop_front().unwrap_or(0);
        Fragmenting { inner, chunks: q, left_in_chunk: first, yield_next: false }
    }
}

impl AsyncRead for Fragmenting {
    fn poll_read(mut self: Pin<&mut Self>, cx: &mut Context<'_>, buf: &mut ReadBuf<'_>) -> Poll<std::io::Result<()>> {
        Pin::new(&mut self.inner).poll_read(cx, buf)
    }
}

impl AsyncWrite for Fragmenting {
    fn poll_write(mut self: Pin<&mut Self>, cx: &mut Context<'_>, data: &[u8]) -> Poll<std::io::Result<usize>> {
        if self.yield_next {
            self.yield_next = false;
            cx.waker().wake_by_ref();
            return Poll::Pending;
        }
        if self.left_in_chunk == 0 {
            match self.chunks.pop_front() {
                Some(n) => self.left_in_chunk = n,
                None => return Pin::new(&mut self.inner).poll_write(cx, data), // beyond the window: unfragmented
            }
        }
        let n = self.left_in_chunk.min(data.len());
        match Pin::new(&mut self.inner).poll_write(cx, &data[..n]) {
            Poll::Ready(Ok(k)) => {
                self.left_in_chunk -= k;
                if self.left_in_chunk == 0 {
                    self.yield_next = true;
                }
                Poll::Ready(Ok(k))
            }
            other => other,
        }
    }
    fn poll_flush(mut self: Pin<&mut Self>, cx: &mut Context<'_>) -> Poll<std::io::Result<()>> {
        Pin::new(&mut self.inner).poll_flush(cx)
    }
    fn poll_shutdown(mut self: Pin<&mut Self>, cx: &mut Context<'_>) -> Poll<std::io::Result<()>> {
        Pin::new(&mut self.inner).poll_shutdown(cx)
    }
}

#[derive(Clone, Copy, Debug, PartialEq, Eq)]
pub enum Srv {
    Auto,
    Single,
}

#[derive(Clone, Debug, PartialEq, Eq)]
pub struct E2e {
    pub response: Option<Result<Resp, String>>,
    pub seen: Option<(String, String, Option<String>, Vec<u8>, String)>,
    pub panics: Vec<String>,
}

macro_rules! spawn_srv {
    ($s:expr, $proto:expr, $incoming:expr, $obs:expr) => {{
        let obs_h = $obs.clone();
        let exec = $s.exec.clone();
        let svc = tower::service_fn(move |req: http::Request<Body>| handler(obs_h.clone(), "srv", req));
        let server = Server::builder().with_acceptor($incoming).with_shared_service(svc).with_protocol($proto).with_executor(exec);
        $s.spawn("server", async move {
            let _ = server.await;
        });
    }};
}

pub fn run_one(proto: Proto, post: bool, srv: Srv, chunks: &[usize]) -> E2e {
    let mut s = Sched::new(vec![]);
    let obs = new_obs();
    let (client, incoming) = duplex::pair();
    match (srv, proto) {
        (Srv::Auto, _) => spawn_srv!(s, AutoBuilder::new(s.exec.clone()), incoming, obs),
        (Srv::Single, Proto::H1) => spawn_srv!(s, http1::Builder::new(), incoming, obs),
        (Srv::Single, Proto::H2) => spawn_srv!(s, http2::Builder::new(s.exec.clone()), incoming, obs),
    }
    let chunks = chunks.to_vec();
    let exec = s.exec.clone();
    let obs_c = obs.clone();
    let c2 = client.clone();
    s.spawn("client", async move {
        let id = 5u32;
        let r: Result<Resp, String> = async {
            let stream = c2.connect(4096).await.map_err(|e| format!("connect: {e}"))?;
            let io = TokioIo::new(Fragmenting::new(stream, &chunks));
            let body = if post { ChunkBody::from_vecs(req_chunks(id)) } else { ChunkBody::new(&[]) };
            let req = http::Request::builder().method(if post { "POST" } else { "GET" }).uri(format!("/r{id}?q={id}")).header("x-id", id.to_string()).header("host", "server.test").body(body).unwrap();
            match proto {
                Proto::H1 => {
                    let (mut sender, conn) = hyper::client::conn::http1::handshake(io).await.map_err(|e| format!("handshake: {e}"))?;
                    exec.execute(async move {
                        let _ = conn.await;
                    });
                    let resp = sender.send_request(req).await.map_err(|e| format!("send: {e}"))?;
                    collect_response(resp).await
                }
                Proto::H2 => {
                    let (mut sender, conn) = hyper::client::conn::http2::handshake(exec.clone(), io).await.map_err(|e| format!("handshake: {e}"))?;
                    exec.execute(async move {
                        let _ = conn.await;
                    });
                    let resp = sender.send_request(req).await.map_err(|e| format!("send: {e}"))?;
                    collect_response(resp).await
                }
            }
        }
        .await;
        obs_c.lock().unwrap().responses.insert(id, r);
    });
    s.horizon = 3000;
    s.run();
    let panics = s.panics().into_iter().map(|(t, p)| format!("{t}: {p}")).collect();
    let o = obs.lock().unwrap();
    let out = E2e {
        response: o.responses.get(&5).cloned(),
        seen: o.seen.get(&5).map(|x| (x.method.clone(), x.path.clone(), x.query.clone(), x.body.clone(), x.version.clone())),
        panics,
    };
    drop(o);
    s.teardown();
    drop(client);
    out
}

/// Returns (executions, distinct outcomes, violations (signature, message, replay json)).
pub fn run_all(thorough: bool) -> (u64, u64, Vec<(String, String, serde_json::Value)>) {
    let window = 32usize;
    let max_cuts = if thorough { 3 } else { 2 };
    let mut comps: Vec<Vec<usize>> = vec![];
    crate::props::iomc::compositions_up_to_cuts(window, max_cuts, &mut |c| comps.push(c.to_vec()));
    let kinds = [(Proto::H1, false), (Proto::H1, true), (Proto::H2, true)];
    let mut viols = vec![];
    let mut n = 0u64;
    let mut distinct = std::collections::BTreeSet::new();
    for (proto, post) in kinds {
        let reference = run_one(proto, post, Srv::Single, &[]);
        n += 1;
        let want = Some(Ok(if post { expected_resp(5, "srv") } else {
            let mut r = expected_resp(5, "srv");
            r.body = b"resp5@srv:|tail".to_vec();
            r
        }));
        if reference.response != want || !reference.panics.is_empty() {
            viols.push((format!("e2e-reference {proto:?}"), format!("the single-protocol server did not answer the unfragmented request as expected: {reference:?}"), serde_json::json!({"engine":"c08-e2e","proto":format!("{proto:?}"),"post":post,"server":"single","chunks":[]})));
            continue;
        }
        let results = crate::evidence::par_map(comps.len(), crate::evidence::n_threads(), |i| {
            let (ps, ch) = (format!("{proto:?}"), comps[i].clone());
            let _g = crate::evidence::watchdog::enter(move || serde_json::json!({"engine":"c08-e2e","proto":ps,"post":post,"server":"auto","chunks":ch}));
            run_one(proto, post, Srv::Auto, &comps[i])
        });
        for (i, got) in results.into_iter().enumerate() {
            n += 1;
            distinct.insert(format!("{proto:?}|{post}|{:?}|{}", got.response.as_ref().map(|r| r.as_ref().map(|x| x.status).map_err(|e| e.clone())), comps[i].len()));
            if got != reference && viols.len() < 6 {
                viols.push((format!("e2e-differs proto={proto:?} fragmented={}", comps[i].len() > 1), format!("auto-detecting server with the client's first bytes cut as {:?} answered {:?}; the single-protocol server answers {:?}", comps[i], got, reference), serde_json::json!({"engine":"c08-e2e","proto":format!("{proto:?}"),"post":post,"server":"auto","chunks":comps[i]})));
            }
        }
    }
    (n, distinct.len() as u64, viols)
}
