//! C17 — no request value makes the client panic: a request grammar through four entry points
//! (Client, pooled service, un-pooled service, connector service) over plain and TLS transports under
//! the deterministic executor (so that tasks the library spawns are polled under catch_unwind too),
//! and over the TCP transport with a constant resolver inside a real runtime.

use super::common::*;
use super::tlsfix;
use crate::det::Sched;
use crate::evidence::{Args, Run};
use hyperdriver::client::conn::connector::ConnectorService;
use hyperdriver::client::conn::protocol::auto::HttpConnectionBuilder;
use hyperdriver::client::conn::TlsTransport;
use hyperdriver::client::ConnectionPoolService;
use hyperdriver::server::conn::Acceptor;
use hyperdriver::server::AutoBuilder;
use hyperdriver::service::{Http1ChecksLayer, Http2ChecksLayer, RequestExecutor, SetHostHeaderLayer};
use hyperdriver::stream::duplex;
use hyperdriver::{Body, Server};
use serde_json::json;
use std::cell::RefCell;
use std::collections::BTreeSet;
use std::sync::{Arc, Mutex};
use tower::{Layer, ServiceExt};

thread_local! {
    static PANICS: RefCell<Vec<String>> = const { RefCell::new(Vec::new()) };
}

/// The innermost frame of the panicking thread that belongs to the library or to one of the crates
/// it drives (not to `http`/`std`, where a generic container merely reports the misuse).
fn responsible_frame() -> String {
    let bt = std::backtrace::Backtrace::force_capture().to_string();
    for line in bt.lines() {
        let l = line.trim();
        // frame lines look like "12: hyper::proto::h1::role::..."; location lines start with "at "
        let Some((_, sym)) = l.split_once(": ") else { continue };
        if l.starts_with("at ") {
            continue;
        }
        let sym = sym.trim_start_matches('<');
        for root in ["hyperdriver::", "hyper::", "h2::", "tower_http::", "tokio_rustls::", "hyper_util::"] {
            if sym.starts_with(root) && !sym.contains("verif_hooks") {
                // drop generic arguments, closure markers and the hash suffix
                let mut t = sym.split('<').next().unwrap_or(sym).to_string();
                if let Some(i) = t.find(" as ") {
                    t.truncate(i);
                }
                while let Some(st) = t.strip_suffix("::{{closure}}") {
                    t = st.to_string();
                }
                if let Some(i) = t.rfind("::h") {
                    if t[i + 3..].len() == 16 && t[i + 3..].chars().all(|c| c.is_ascii_hexdigit()) {
                        t.truncate(i);
                    }
                }
                return t.trim_end_matches("::").to_string();
            }
        }
    }
    String::new()
}

fn install_hook() {
    std::panic::set_hook(Box::new(|info| {
        let loc = info.location().map(|l| format!("{}:{}", l.file().rsplit("repo/").next().unwrap_or(l.file()), l.line())).unwrap_or_default();
        // a panic raised inside a dependency's container code is attributed to the frame that called it
        let loc = if loc.contains("/.cargo/registry/") {
            let file = loc.rsplit('/').next().unwrap_or(&loc).replace(':', "#");
            let krate = loc.rsplit("/src/").nth(1).and_then(|p| p.rsplit('/').next()).unwrap_or("").to_string();
            // (the signature code splits at ':', so the path separator of the symbol is rewritten)
            format!("{krate}/{file} via {}", responsible_frame().replace("::", "."))
        } else {
            loc
        };
        let msg = info.payload().downcast_ref::<&str>().map(|s| s.to_string()).or_else(|| info.payload().downcast_ref::<String>().cloned()).unwrap_or_default();
        PANICS.with(|p| p.borrow_mut().push(format!("{loc}: {msg}")));
    }));
}

#[derive(Clone, Debug)]
pub struct Case {
    pub version: http::Version,
    pub method: &'static str,
    pub uri: String,
    pub uri_class: &'static str,
    pub headers: u8,
    pub body: bool,
}

pub fn grammar() -> Vec<Case> {
    let versions = [http::Version::HTTP_09, http::Version::HTTP_10, http::Version::HTTP_11, http::Version::HTTP_2, http::Version::HTTP_3];
    let hosts = ["example.com", "127.0.0.1", "[::1]", "a_b.test", "-", "a..b", "exa$mple.com", "EXAMPLE.COM", "[::1]:8443", "example.com:0", "user:pw@example.com", "u@[::1]:65535",
        // a colon without a usable port: empty (legal per RFC 3986) or out of range
        "example.com:", "[::1]:", "example.com:99999",
        // brackets that do not hold an IPv6 address (legal for `http::Uri`): a zone identifier, IPvFuture, nothing
        "[fe80::1%25eth0]", "[v1.fe]", "[]"];
    let mut uris: Vec<(String, &'static str)> = vec![];
    for h in hosts {
        uris.push((format!("http://{h}/p?q=1"), "absolute-http"));
        uris.push((format!("https://{h}/p"), "absolute-https"));
        uris.push((format!("https://{h}"), "absolute-https"));
        // empty path directly followed by a query
        uris.push((format!("http://{h}?x=1"), "absolute-http"));
    }
    uris.push(("https://example.com?".into(), "absolute-https"));
    uris.push(("wss://example.com/socket".into(), "absolute-wss"));
    uris.push(("ftp://example.com/file".into(), "absolute-other-scheme"));
    uris.push(("/p?q=1".into(), "origin-form"));
    uris.push(("/".into(), "origin-form"));
    uris.push(("example.com:443".into(), "authority-form"));
    uris.push(("[::1]:443".into(), "authority-form"));
    uris.push(("*".into(), "asterisk-form"));
    let mut v = vec![];
    for version in versions {
        for method in ["GET", "POST", "CONNECT", "PURGE", "OPTIONS"] {
            for (uri, class) in &uris {
                if uri.parse::<http::Uri>().is_err() {
                    continue;
                }
                for headers in 0..3u8 {
                    // header sets 3 and 4 (a header map filled to its capacity) are added for a few URIs below
                    // bodies only matter for a few combinations; keep the product small but complete in the other dimensions
                    for body in [false, true] {
                        if body && !(method == "POST" || method == "PURGE") {
                            continue;
                        }
                        v.push(Case { version, method, uri: uri.clone(), uri_class: class, headers, body });
                    }
                }
            }
        }
    }
    // a header map that cannot take one more entry (with and without the headers the client would add itself)
    for version in versions {
        for method in ["GET", "POST"] {
            for (uri, class) in [("http://example.com/p?q=1", "absolute-http"), ("https://example.com/p", "absolute-https")] {
                for headers in [3u8, 4] {
                    v.push(Case { version, method, uri: uri.into(), uri_class: class, headers, body: method == "POST" });
                }
            }
        }
    }
    v
}

fn build_request(c: &Case) -> Option<http::Request<Body>> {
    let mut b = http::Request::builder().method(c.method).uri(c.uri.as_str()).version(c.version);
    match c.headers {
        1 => b = b.header("host", "caller.test"),
        2 => b = b.header("connection", "upgrade").header("upgrade", "foo").header("te", "trailers"),
        3 => b = b.header("host", "caller.test").header("user-agent", "caller/1"),
        _ => {}
    }
    let mut req = b.body(if c.body { Body::from("payload") } else { Body::empty() }).ok()?;
    if c.headers >= 3 {
        // as many distinct headers as the map accepts: `try_insert` reports when it is full
        let mut i = 0u32;
        loop {
            let name = http::HeaderName::from_bytes(format!("x-fill-{i}").as_bytes()).ok()?;
            if req.headers_mut().try_insert(name, http::HeaderValue::from_static("v")).is_err() {
                break;
            }
            i += 1;
            if i > 100_000 {
                break;
            }
        }
    }
    Some(req)
}

#[derive(Clone, Copy, Debug, PartialEq, Eq, PartialOrd, Ord)]
pub enum Entry {
    Client,
    Pooled,
    Unpooled,
    Connector,
}

#[derive(Clone, Copy, Debug, PartialEq, Eq, PartialOrd, Ord)]
pub enum Tp {
    Plain,
    Tls,
}

type Res = Result<http::Response<Body>, String>;

/// Run one case under the deterministic executor; returns (outcome class, panics).
fn run_case(c: &Case, entry: Entry, tp: Tp, fx: &Fx) -> (String, Vec<String>) {
    let (o, p, _) = run_case_sched(c, entry, tp, fx, &[]);
    (o, p)
}

/// Transport that sends a connection to the TLS listener exactly when the TLS transport will wrap
/// it (TLS configured and scheme https/wss), else to the plain listener.
#[derive(Clone, Debug)]
pub struct SchemeRoute {
    plain: duplex::DuplexClient,
    tls: duplex::DuplexClient,
    tls_on: bool,
}

impl tower::Service<http::request::Parts> for SchemeRoute {
    type Response = duplex::DuplexStream;
    type Error = std::io::Error;
    type Future = std::pin::Pin<Box<dyn std::future::Future<Output = Result<duplex::DuplexStream, std::io::Error>> + Send>>;
    fn poll_ready(&mut self, _: &mut std::task::Context<'_>) -> std::task::Poll<Result<(), Self::Error>> {
        std::task::Poll::Ready(Ok(()))
    }
    fn call(&mut self, req: http::request::Parts) -> Self::Future {
        let secure = matches!(req.uri.scheme_str(), Some("https") | Some("wss"));
        let c = if self.tls_on && secure { self.tls.clone() } else { self.plain.clone() };
        Box::pin(async move { c.connect(4096).await })
    }
}

/// A sequence of requests sent one after the other through ONE client / service instance (so the
/// second request meets whatever state the first left behind). Outcome classes joined with " ; ".
fn run_seq(cs: &[&Case], entry: Entry, tp: Tp, fx: &Fx, schedule: &[usize]) -> (String, Vec<String>, Vec<crate::det::Point>) {
    PANICS.with(|p| p.borrow_mut().clear());
    let mut reqs = vec![];
    for c in cs {
        let Some(req) = build_request(c) else { return ("unbuildable".into(), vec![], vec![]) };
        reqs.push(req);
    }
    let n_reqs = reqs.len();
    let mut s = Sched::new(schedule.to_vec());
    let obs = new_obs();
    let (cp, ip) = duplex::pair();
    let (ct, it) = duplex::pair();
    {
        let exec = s.exec.clone();
        let obs_h = obs.clone();
        let svc = tower::service_fn(move |r: http::Request<Body>| handler(obs_h.clone(), "P", r));
        let server = Server::builder().with_acceptor(ip).with_shared_service(svc).with_protocol(AutoBuilder::new(exec.clone())).with_executor(exec);
        s.spawn("server-plain", async move {
            let _ = server.await;
        });
        let exec = s.exec.clone();
        let obs_h = obs.clone();
        let svc = tower::service_fn(move |r: http::Request<Body>| handler(obs_h.clone(), "T", r));
        let server = Server::builder().with_acceptor(Acceptor::from(it).with_tls(fx.server_config.clone())).with_shared_service(svc).with_protocol(AutoBuilder::new(exec.clone())).with_executor(exec);
        s.spawn("server-tls", async move {
            let _ = server.await;
        });
    }
    let route = SchemeRoute { plain: cp.clone(), tls: ct.clone(), tls_on: tp == Tp::Tls };
    let transport = match tp {
        Tp::Plain => TlsTransport::new(route.clone()),
        Tp::Tls => TlsTransport::new(route.clone()).with_tls(fx.client_config.clone()),
    };
    let results: Arc<Mutex<Vec<Result<u16, String>>>> = Arc::new(Mutex::new(vec![]));
    let r2 = results.clone();
    macro_rules! stack {
        () => {
            SetHostHeaderLayer::new().layer(Http2ChecksLayer::new().layer(Http1ChecksLayer::new().layer(RequestExecutor::new())))
        };
    }
    type Fut = std::pin::Pin<Box<dyn std::future::Future<Output = Res> + Send>>;
    let build = std::panic::catch_unwind(std::panic::AssertUnwindSafe(|| -> Box<dyn FnMut(http::Request<Body>) -> Fut + Send> {
        match entry {
            Entry::Client => {
                let b = hyperdriver::Client::builder().with_auto_http().with_transport(route.clone()).with_default_pool().without_timeout();
                let client = match tp {
                    Tp::Plain => b.without_tls().build(),
                    Tp::Tls => b.with_tls((*fx.client_config).clone()).build(),
                };
                Box::new(move |req| {
                    let mut client = client.clone();
                    Box::pin(async move { client.request(req).await.map_err(|e| e.to_string()) })
                })
            }
            Entry::Pooled => {
                let svc: ConnectionPoolService<_, _, _, Body> = ConnectionPoolService::new(transport, HttpConnectionBuilder::<Body>::default(), stack!(), Default::default());
                Box::new(move |req| {
                    let svc = svc.clone();
                    Box::pin(async move { svc.oneshot(req).await.map(|r| r.map(Body::from)).map_err(|e| e.to_string()) })
                })
            }
            Entry::Unpooled => {
                let svc: ConnectionPoolService<_, _, _, Body> = ConnectionPoolService::new(transport, HttpConnectionBuilder::<Body>::default(), stack!(), Default::default()).without_pool();
                Box::new(move |req| {
                    let svc = svc.clone();
                    Box::pin(async move { svc.oneshot(req).await.map(|r| r.map(Body::from)).map_err(|e| e.to_string()) })
                })
            }
            Entry::Connector => {
                let svc = ConnectorService::new(stack!(), transport, HttpConnectionBuilder::<Body>::default());
                Box::new(move |req| {
                    let svc = svc.clone();
                    Box::pin(async move { svc.oneshot(req).await.map(|r| r.map(Body::from)).map_err(|e| e.to_string()) })
                })
            }
        }
    }));
    match build {
        Err(_) => {}
        Ok(mut send) => {
            s.spawn("caller", async move {
                for req in reqs {
                    // the response body is read to its end, as a caller would, so that the connection goes back to the pool
                    let r = send(req).await;
                    match r {
                        Ok(resp) => {
                            r2.lock().unwrap().push(Ok(resp.status().as_u16()));
                            let _ = http_body_util::BodyExt::collect(resp.into_body()).await;
                        }
                        Err(e) => r2.lock().unwrap().push(Err(e)),
                    }
                }
            });
            s.horizon = 4000;
            s.run();
        }
    }
    let task_panics: Vec<String> = s.panics().into_iter().map(|(t, p)| format!("task {t}: {p}")).collect();
    let livelock = s.livelock;
    let points = s.points.clone();
    let replay_error = s.replay_error.clone();
    s.teardown();
    drop((cp, ct));
    let mut panics = PANICS.with(|p| p.borrow().clone());
    if panics.is_empty() {
        panics = task_panics;
    }
    let got = results.lock().unwrap().clone();
    let outcome = if let Some(e) = replay_error {
        format!("machinery: {e}")
    } else {
        let mut parts: Vec<String> = got
            .iter()
            .map(|r| match r {
                Ok(st) => format!("ok-{st}"),
                Err(e) => format!("err:{}", e.split(':').next().unwrap_or("").trim()),
            })
            .collect();
        if got.len() < n_reqs {
            parts.push(if livelock { "livelock".into() } else { "no-result".into() });
        }
        parts.join(" ; ")
    };
    (outcome, panics, points)
}

/// Same, under a given schedule prefix; also returns the scheduling points met (for the explorer).
fn run_case_sched(c: &Case, entry: Entry, tp: Tp, fx: &Fx, schedule: &[usize]) -> (String, Vec<String>, Vec<crate::det::Point>) {
    run_seq(&[c], entry, tp, fx, schedule)
}

/// Indices of a representative sub-grammar for the pair histories: no extra headers, no body,
/// GET and CONNECT, one URI per (form, host kind).
fn pair_representatives(cases: &[Case], thorough: bool) -> Vec<usize> {
    let uris = [
        "http://example.com/p?q=1", "https://example.com/p", "http://[::1]/p?q=1", "https://[::1]/p", "http://a..b/p?q=1", "https://a..b/p",
        "wss://example.com/socket", "ftp://example.com/file", "/p?q=1", "example.com:443", "*",
    ];
    let versions: &[http::Version] = if thorough {
        &[http::Version::HTTP_09, http::Version::HTTP_10, http::Version::HTTP_11, http::Version::HTTP_2, http::Version::HTTP_3]
    } else {
        &[http::Version::HTTP_09, http::Version::HTTP_11, http::Version::HTTP_2]
    };
    let mut v = vec![];
    for (i, c) in cases.iter().enumerate() {
        let method_ok = c.method == "GET" || c.method == "CONNECT" || (thorough && c.method == "POST" && c.body);
        let hdr_ok = c.headers == 0 && (!c.body || c.method == "POST");
        if method_ok && hdr_ok && uris.contains(&c.uri.as_str()) && versions.contains(&c.version) && (c.method != "POST" || c.body) {
            v.push(i);
        }
    }
    v
}

pub struct Fx {
    pub server_config: Arc<rustls::ServerConfig>,
    pub client_config: Arc<rustls::ClientConfig>,
}

fn replay(path: &str, fx: &Fx) -> i32 {
    let doc: serde_json::Value = serde_json::from_str(&std::fs::read_to_string(path).expect("replay file")).expect("json");
    let rp = doc.get("replay").cloned().unwrap_or(doc);
    let cases = grammar();
    if let Some(pair) = rp.get("pair").and_then(|x| x.as_array()) {
        let idx: Vec<usize> = pair.iter().filter_map(|x| x.as_u64()).map(|x| x as usize).collect();
        if idx.len() != 2 || idx.iter().any(|i| *i >= cases.len()) {
            println!("MACHINERY-ERROR bad pair in replay file");
            return 2;
        }
        let entry = match rp.get("entry").and_then(|x| x.as_str()) {
            Some("Pooled") => Entry::Pooled,
            _ => Entry::Client,
        };
        let tp = if rp.get("transport").and_then(|x| x.as_str()) == Some("Tls") { Tp::Tls } else { Tp::Plain };
        install_hook();
        let (o1, p1, _) = run_seq(&[&cases[idx[0]], &cases[idx[1]]], entry, tp, fx, &[]);
        let (o2, p2, _) = run_seq(&[&cases[idx[0]], &cases[idx[1]]], entry, tp, fx, &[]);
        let _ = std::panic::take_hook();
        if o1 != o2 || p1 != p2 {
            println!("MACHINERY-ERROR replay diverged");
            return 2;
        }
        println!("pair {:?} then {:?} through {entry:?} over {tp:?}: outcome [{o1}], panics {p1:?}", cases[idx[0]], cases[idx[1]]);
        return if p1.is_empty() && !o1.contains("no-result") && !o1.contains("livelock") {
            println!("replay holds");
            0
        } else {
            println!("VIOLATION property=C17 replay={path}");
            1
        };
    }
    let Some(c) = rp.get("case_index").and_then(|x| x.as_u64()).and_then(|i| cases.get(i as usize)) else {
        println!("MACHINERY-ERROR replay file has no case_index (TCP-transport artefacts: re-run ./check C17)");
        return 2;
    };
    let entry = match rp.get("entry").and_then(|x| x.as_str()) {
        Some("Pooled") => Entry::Pooled,
        Some("Unpooled") => Entry::Unpooled,
        Some("Connector") => Entry::Connector,
        _ => Entry::Client,
    };
    let tp = if rp.get("transport").and_then(|x| x.as_str()) == Some("Tls") { Tp::Tls } else { Tp::Plain };
    install_hook();
    let (o1, p1) = run_case(c, entry, tp, fx);
    let (o2, p2) = run_case(c, entry, tp, fx);
    let _ = std::panic::take_hook();
    if o1 != o2 || p1 != p2 {
        println!("MACHINERY-ERROR replay diverged");
        return 2;
    }
    println!("{} {} {:?} headers={} body={} through {entry:?} over {tp:?}: outcome {o1}, panics {p1:?}", c.method, c.uri, c.version, c.headers, c.body);
    if p1.is_empty() && o1 != "no-result" && o1 != "livelock" {
        println!("replay holds");
        0
    } else {
        println!("VIOLATION property=C17 replay={path}");
        1
    }
}

pub fn run(args: &Args) -> i32 {
    let mut run = Run::new("C17", args.tier, "model_checking");
    let fx = match (tlsfix::server_config("examplecom", &[b"h2", b"http/1.1"]), tlsfix::client_config(&[b"h2", b"http/1.1"])) {
        (Ok(s), Ok(c)) => Fx { server_config: s, client_config: Arc::new(c) },
        (a, b) => {
            println!("MACHINERY-ERROR tls fixtures: {:?} {:?}", a.err(), b.err());
            return 2;
        }
    };
    if let Some(p) = &args.replay {
        return replay(p, &fx);
    }
    let cases = grammar();
    let entries = [Entry::Client, Entry::Pooled, Entry::Unpooled, Entry::Connector];
    let tps = [Tp::Plain, Tp::Tls];
    let mut items: Vec<(usize, Entry, Tp)> = vec![];
    for i in 0..cases.len() {
        for e in entries {
            for t in tps {
                items.push((i, e, t));
            }
        }
    }
    install_hook();
    let threads = crate::evidence::n_threads();
    let chunk = (items.len() + threads * 4 - 1) / (threads * 4);
    let chunks: Vec<&[(usize, Entry, Tp)]> = items.chunks(chunk.max(1)).collect();
    let results = crate::evidence::par_map(chunks.len(), threads, |ci| {
        chunks[ci]
            .iter()
            .map(|(i, e, t)| {
                let (ci2, es, ts) = (*i, format!("{e:?}"), format!("{t:?}"));
                let _g = crate::evidence::watchdog::enter(move || json!({"engine":"schedmc-c17","case_index":ci2,"entry":es,"transport":ts}));
                let r = run_case(&cases[*i], *e, *t, &fx);
                if *i % 8 == 3 {
                    let again = run_case(&cases[*i], *e, *t, &fx);
                    crate::det::AUDITS.fetch_add(1, std::sync::atomic::Ordering::Relaxed);
                    if again != r {
                        return (*i, *e, *t, (format!("machinery: the same case executed twice gave {:?} and then {:?}", r, again), vec![]));
                    }
                }
                (*i, *e, *t, r)
            })
            .collect::<Vec<_>>()
    });
    let mut classes: BTreeSet<String> = BTreeSet::new();
    let mut n = 0u64;
    for chunk in results {
        for (i, e, t, (outcome, panics)) in chunk {
            n += 1;
            let c = &cases[i];
            if outcome.starts_with("machinery") {
                println!("MACHINERY-ERROR {outcome}");
                let _ = std::panic::take_hook();
                let _ = run.finish();
                return 2;
            }
            classes.insert(format!("{e:?}|{t:?}|{}|{outcome}", c.uri_class));
            if !panics.is_empty() {
                let loc = panics[0].split(':').take(2).collect::<Vec<_>>().join(":");
                let class = if c.uri_class.starts_with("absolute") {
                    let host = c.uri.split("://").nth(1).unwrap_or("").split('/').next().unwrap_or("");
                    let kind = if host.starts_with('[') { "ipv6-literal" } else if host.parse::<std::net::Ipv4Addr>().is_ok() { "ipv4" } else { "name" };
                    format!("{} host={kind}", c.uri_class)
                } else {
                    c.uri_class.to_string()
                };
                let vclass = match c.version { http::Version::HTTP_09 => "HTTP/0.9", http::Version::HTTP_3 => "HTTP/3", _ => "supported" };
                run.violation(format!("panic at {loc} version={vclass} method={} uri={class}", if c.method == "CONNECT" { "CONNECT" } else { "other" }),
                    format!("panic ({}) sending {} {} {:?} through {e:?} over {t:?} transport; outcome {outcome}", panics.join(" | "), c.method, c.uri, c.version),
                    json!({"engine":"schedmc-c17","case_index":i,"case":{"version":format!("{:?}", c.version),"method":c.method,"uri":c.uri,"headers":c.headers,"body":c.body},"entry":format!("{e:?}"),"transport":format!("{t:?}")}));
            } else if outcome == "no-result" || outcome == "livelock" {
                run.violation(format!("no-result entry={e:?} uri={}", c.uri_class), format!("the caller got neither a response nor an error ({outcome}) sending {} {} {:?} through {e:?} over {t:?}", c.method, c.uri, c.version),
                    json!({"engine":"schedmc-c17","case_index":i,"case":{"version":format!("{:?}", c.version),"method":c.method,"uri":c.uri,"headers":c.headers,"body":c.body},"entry":format!("{e:?}"),"transport":format!("{t:?}")}));
            }
        }
    }
    // thorough tier: every schedule with one deviation from FIFO order, for every case
    if args.tier.is_thorough() {
        let results = crate::evidence::par_map(chunks.len(), threads, |ci| {
            let mut found: Vec<(usize, Entry, Tp, Vec<usize>, String, Vec<String>)> = vec![];
            let mut execs = 0u64;
            for (i, e, t) in chunks[ci].iter() {
                let c = &cases[*i];
                crate::evidence::watchdog::set_context(json!({"engine":"schedmc-c17","case_index":*i,"entry":format!("{e:?}"),"transport":format!("{t:?}")}));
                let stats = crate::det::explore(
                    1,
                    400,
                    |prefix| {
                        let (o, p, points) = run_case_sched(c, *e, *t, &fx, prefix);
                        crate::det::Execution { points, outcome: (o, p) }
                    },
                    |prefix, _d, ex| {
                        let (o, p) = &ex.outcome;
                        if (!p.is_empty() || o == "no-result" || o == "livelock" || o.starts_with("machinery")) && found.len() < 20 {
                            found.push((*i, *e, *t, prefix.to_vec(), o.clone(), p.clone()));
                            return false;
                        }
                        true
                    },
                );
                execs += stats.executions;
            }
            (execs, found)
        });
        let mut execs = 0u64;
        for (x, found) in results {
            execs += x;
            for (i, e, t, prefix, outcome, panics) in found {
                let c = &cases[i];
                if outcome.starts_with("machinery") {
                    println!("MACHINERY-ERROR {outcome}");
                    let _ = run.finish();
                    return 2;
                }
                run.violation(format!("schedule-dependent {} entry={e:?} uri={}", if panics.is_empty() { "no-result" } else { "panic" }, c.uri_class),
                    format!("under schedule {prefix:?}: outcome {outcome}, panics {panics:?} sending {} {} {:?} through {e:?} over {t:?}", c.method, c.uri, c.version),
                    json!({"engine":"schedmc-c17","case_index":i,"entry":format!("{e:?}"),"transport":format!("{t:?}"),"schedule":prefix}));
            }
        }
        run.cov("schedules_with_one_deviation", execs);
        n += execs;
    }
    // histories of two requests through ONE client / service instance: every ordered pair of a
    // representative sub-grammar, so that the second request meets the pool state, in-flight markers
    // and connections the first one (often a failing one) left behind
    {
        let reps: Vec<usize> = pair_representatives(&cases, args.tier.is_thorough());
        let mut pitems: Vec<(usize, usize, Entry, Tp)> = vec![];
        for &a in &reps {
            for &b in &reps {
                for e in [Entry::Client, Entry::Pooled] {
                    for t in tps {
                        pitems.push((a, b, e, t));
                    }
                }
            }
        }
        let pchunk = ((pitems.len() + threads * 4 - 1) / (threads * 4)).max(1);
        let pchunks: Vec<&[(usize, usize, Entry, Tp)]> = pitems.chunks(pchunk).collect();
        let presults = crate::evidence::par_map(pchunks.len(), threads, |ci| {
            pchunks[ci]
                .iter()
                .map(|(a, b, e, t)| {
                    let (pa, pb, es, ts) = (*a, *b, format!("{e:?}"), format!("{t:?}"));
                    let _g = crate::evidence::watchdog::enter(move || json!({"engine":"schedmc-c17","pair":[pa,pb],"entry":es,"transport":ts}));
                    let (o, p, _) = run_seq(&[&cases[*a], &cases[*b]], *e, *t, &fx, &[]);
                    (*a, *b, *e, *t, o, p)
                })
                .collect::<Vec<_>>()
        });
        let mut pair_classes: BTreeSet<String> = BTreeSet::new();
        let mut pn = 0u64;
        for chunk in presults {
            for (a, b, e, t, outcome, panics) in chunk {
                pn += 1;
                let (ca, cb) = (&cases[a], &cases[b]);
                pair_classes.insert(format!("{e:?}|{t:?}|{}|{}|{outcome}", ca.uri_class, cb.uri_class));
                let bad = !panics.is_empty() || outcome.contains("no-result") || outcome.contains("livelock");
                if outcome.starts_with("machinery") {
                    println!("MACHINERY-ERROR {outcome}");
                    let _ = run.finish();
                    return 2;
                }
                if bad {
                    let what = if panics.is_empty() { "no-result" } else { "panic" };
                    let loc = panics.first().map(|p| p.split(':').take(2).collect::<Vec<_>>().join(":")).unwrap_or_default();
                    run.violation(
                        format!("pair {what} {loc} entry={e:?} first={} second={}", ca.uri_class, cb.uri_class),
                        format!("sending {} {} {:?} and then {} {} {:?} through one {e:?} over {t:?}: outcome [{outcome}], panics {panics:?}", ca.method, ca.uri, ca.version, cb.method, cb.uri, cb.version),
                        json!({"engine":"schedmc-c17","pair":[a,b],"entry":format!("{e:?}"),"transport":format!("{t:?}")}),
                    );
                }
            }
        }
        run.cov("request_pairs_executed", pn);
        run.cov("request_pair_representatives", reps.len() as u64);
        run.cov("request_pair_outcome_classes", pair_classes.len() as u64);
        n += pn;
    }
    // TCP transport (get_host_and_port path) in a real runtime against a closed loopback port
    let tcp = tcp_cases(&cases);
    let _ = std::panic::take_hook();
    match tcp {
        Ok((m, tcp_panics)) => {
            run.cov("tcp_transport_cases_real_runtime", m);
            for (desc, p) in tcp_panics {
                run.violation(format!("panic tcp-transport {}", p.split(':').take(2).collect::<Vec<_>>().join(":")), format!("panic {p} sending {desc} over the TCP transport"), json!({"engine":"schedmc-c17-tcp","case":desc}));
            }
        }
        Err(e) => {
            println!("MACHINERY-ERROR tcp cases: {e}");
            let _ = run.finish();
            return 2;
        }
    }
    run.cov("evaluations", n);
    run.cov("distinct_nontrivial", classes.len() as u64);
    run.cov("grammar_cases", cases.len() as u64);
    run.cov("rule", "request grammar: every http::Version constant (0.9, 1.0, 1.1, 2, 3) x methods {GET, POST, CONNECT, PURGE, OPTIONS} x URI forms (absolute http/https over hosts {DNS, IPv4, [IPv6], underscore, '-', 'a..b', '$', upper-case, with ports}, wss, other scheme, origin-form, authority-form, '*') x header sets x body, through Client, ConnectionPoolService with pool, without pool, and ConnectorService, over a plain and a TLS-configured transport, each executed to quiescence under the deterministic executor against real in-process servers; a case is distinct by (entry point, transport, URI class, outcome class)");
    run.cov("exhaustive", true);
    run.cov("samples", vec![json!({"case":"GET https://[::1]/p HTTP/1.1 via ConnectionPoolService over TLS","expect":"Ok or Err, never a panic"})]);
    run.assume("panics are detected by a panic hook plus catch_unwind around every task poll, including tasks the library spawned through the verif-hooks spawn seam and the server-side executor");
    run.finish()
}

fn tcp_cases(cases: &[Case]) -> Result<(u64, Vec<(String, String)>), String> {
    use hyperdriver::client::conn::dns::ConstantResolver;
    use hyperdriver::client::conn::transport::tcp::TcpTransport;
    let closed = {
        let l = std::net::TcpListener::bind("127.0.0.1:0").map_err(|e| e.to_string())?;
        l.local_addr().unwrap()
    };
    let rt = tokio::runtime::Builder::new_current_thread().enable_all().build().map_err(|e| e.to_string())?;
    let mut n = 0u64;
    let mut found = vec![];
    rt.block_on(async {
        for c in cases.iter().filter(|c| c.headers == 0 && !c.body && matches!(c.method, "GET" | "CONNECT")) {
            let Some(req) = build_request(c) else { continue };
            PANICS.with(|p| p.borrow_mut().clear());
            n += 1;
            let transport: TcpTransport<ConstantResolver> = TcpTransport::builder().with_resolver(ConstantResolver::new(closed)).build();
            let mut client = hyperdriver::Client::builder().with_auto_http().with_transport(transport).with_default_pool().without_tls().build();
            let fut = std::panic::AssertUnwindSafe(async move { tokio::time::timeout(std::time::Duration::from_secs(5), client.request(req)).await });
            let _ = futures_util::FutureExt::catch_unwind(fut).await;
            tokio::task::yield_now().await;
            let panics = PANICS.with(|p| p.borrow().clone());
            if let Some(p) = panics.first() {
                found.push((format!("{} {} {:?}", c.method, c.uri, c.version), p.clone()));
            }
        }
    });
    Ok((n, found))
}
