//! E5 `schedmc` — stateless, deviation-bounded schedule and fault-point exploration of the real
//! client and server under the deterministic executor (`crate::det`).
pub mod c01;
pub mod c07;
pub mod c08e2e;
pub mod c09;
pub mod c12;
pub mod c13e2e;
pub mod c17;
pub mod c19e2e;
pub mod common;
pub mod tlsfix;
