//! C07 — graceful shutdown: the signal is fired at every scheduling point (and combined with further
//! scheduling deviations) of scenarios with 0..2 client connections over http1 / http2 / auto.

use super::common::*;
use crate::det::{explore, Execution, Sched};
use crate::evidence::{Args, Run};
use hyperdriver::server::conn::{http1, http2, Acceptor};
use hyperdriver::server::AutoBuilder;
use hyperdriver::stream::duplex;
use hyperdriver::{Body, Server};
use serde_json::json;
use std::collections::BTreeSet;

#[derive(Clone, Copy, Debug, PartialEq, Eq)]
pub enum SrvProto {
    Http1,
    Http2,
    Auto,
}

#[derive(Clone, Debug)]
pub struct Scn {
    pub name: String,
    pub srv: SrvProto,
    /// clients that connect and send nothing (0) or the first n bytes of the HTTP/2 preface, then stay silent
    pub silent: Vec<usize>,
    pub clients: Vec<Proto>,
    pub late_client: bool,
    pub bufsize: usize,
    /// the server's acceptor terminates TLS; clients speak TLS (silent clients send the first n bytes
    /// of a recorded ClientHello instead of preface bytes)
    pub tls: bool,
    /// the caller keeps the completed server future alive (`(&mut server).await`, `select!` on `&mut server`)
    /// until the clients are released, instead of dropping it when it resolves
    pub keep_future: bool,
}

macro_rules! spawn_server {
    ($s:expr, $proto:expr, $incoming:expr, $obs:expr, $rx:expr, $keep:expr, $hold:expr) => {{
        let keep: bool = $keep;
        let hold_srv = $hold.clone();
        let obs = $obs.clone();
        let obs_h = $obs.clone();
        let exec = $s.exec.clone();
        let svc = tower::service_fn(move |req: http::Request<Body>| handler(obs_h.clone(), "srv", req));
        let server = Server::builder()
            .with_acceptor($incoming)
            .with_shared_service(svc)
            .with_protocol($proto)
            .with_executor(exec)
            .with_graceful_shutdown(async move {
                let _ = $rx.await;
            });
        $s.spawn("server", async move {
            let mut fut = Box::pin(std::future::IntoFuture::into_future(server));
            let r = (&mut fut).await;
            obs.lock().unwrap().server_result = Some(r.map_err(|e| e.to_string()));
            if keep {
                // shutting the connections down must not depend on the completed future being dropped
                hold_srv.wait().await;
            }
            drop(fut);
        });
    }};
}

#[derive(Debug, Clone)]
pub struct Outcome {
    pub viols: Vec<(String, String)>,
    pub trace: String,
    pub schedule: Vec<String>,
    pub signal_point: Option<usize>,
}

thread_local! {
    static TLS: Option<std::sync::Arc<super::tlsfix::TlsFixture>> = super::tlsfix::TlsFixture::load().ok().map(std::sync::Arc::new);
}

pub fn run_one(scn: &Scn, schedule: &[usize]) -> Execution<Outcome> {
    let mut s = Sched::new(schedule.to_vec());
    let obs = new_obs();
    let (client, incoming) = duplex::pair();
    let (sig_tx, sig_rx) = tokio::sync::oneshot::channel::<()>();
    let hold = Gate::new();
    let fx = if scn.tls { TLS.with(|t| t.clone()) } else { None };
    if scn.tls && fx.is_none() {
        return Execution { points: vec![], outcome: Outcome { viols: vec![("machinery".into(), "TLS fixtures could not be loaded".into())], trace: String::new(), schedule: vec![], signal_point: None } };
    }
    let connector = fx.as_ref().map(|f| f.any_cert_connector.clone());
    match (&fx, scn.srv) {
        (None, SrvProto::Http1) => spawn_server!(s, http1::Builder::new(), incoming, obs, sig_rx, scn.keep_future, hold),
        (None, SrvProto::Http2) => spawn_server!(s, http2::Builder::new(s.exec.clone()), incoming, obs, sig_rx, scn.keep_future, hold),
        (None, SrvProto::Auto) => spawn_server!(s, AutoBuilder::new(s.exec.clone()), incoming, obs, sig_rx, scn.keep_future, hold),
        (Some(f), SrvProto::Http1) => spawn_server!(s, http1::Builder::new(), Acceptor::from(incoming).with_tls(f.server_config.clone()), obs, sig_rx, scn.keep_future, hold),
        (Some(f), SrvProto::Http2) => spawn_server!(s, http2::Builder::new(s.exec.clone()), Acceptor::from(incoming).with_tls(f.server_config.clone()), obs, sig_rx, scn.keep_future, hold),
        (Some(f), SrvProto::Auto) => spawn_server!(s, AutoBuilder::new(s.exec.clone()), Acceptor::from(incoming).with_tls(f.server_config.clone()), obs, sig_rx, scn.keep_future, hold),
    }
    for (i, p) in scn.clients.iter().enumerate() {
        let id = (i + 1) as u32;
        s.spawn(&format!("client{id}"), raw_client_over(client.clone(), connector.clone(), s.exec.clone(), *p, id, scn.bufsize, obs.clone(), hold.clone()));
    }
    for (i, n) in scn.silent.iter().enumerate() {
        let id = 70 + i as u32;
        let prefix = match &fx {
            Some(f) => f.client_hello[..(*n).min(f.client_hello.len())].to_vec(),
            None => crate::props::iomc::PREFACE[..*n].to_vec(),
        };
        s.spawn(&format!("silent{id}"), silent_client(client.clone(), id, scn.bufsize, prefix, obs.clone(), hold.clone()));
    }
    let n_silent = scn.silent.len() as u32;
    // the shutdown signal: by default at the first quiescent point, as a deviation at any point
    let obs_sig = obs.clone();
    let mut sig_tx = Some(sig_tx);
    let signal_env = s.env("signal", true, |_| true, move |_s| {
        let mut o = obs_sig.lock().unwrap();
        o.entered_at_signal = Some(o.handler_entered.clone());
        drop(o);
        if let Some(tx) = sig_tx.take() {
            let _ = tx.send(());
        }
    });
    // a client that connects only after the signal
    if scn.late_client {
        let c2 = client.clone();
        let obs2 = obs.clone();
        let hold2 = hold.clone();
        let bufsize = scn.bufsize;
        let proto = *scn.clients.first().unwrap_or(&Proto::H1);
        s.env("late-connect", true, move |s| s.envs[signal_env].fired, move |s| {
            let exec = s.exec.clone();
            s.spawn("client99", raw_client_over(c2, connector, exec, proto, 99, bufsize, obs2, hold2));
        });
    }
    // (iv)/(v) are evaluated at the first quiescent point after the signal, while clients still hold
    // their connections; only then are the clients released.
    let checked = std::sync::Arc::new(std::sync::Mutex::new(None::<Vec<(String, String)>>));
    let checked2 = checked.clone();
    let obs_q = obs.clone();
    let n_clients = scn.clients.len() as u32;
    let late = scn.late_client;
    s.on_quiescent.push(Box::new(move |s: &mut Sched| {
        if !s.envs[signal_env].fired || checked2.lock().unwrap().is_some() {
            return;
        }
        if late && !s.envs.iter().any(|e| e.name == "late-connect" && e.fired) {
            return;
        }
        let mut v = vec![];
        let o = obs_q.lock().unwrap();
        match &o.server_result {
            Some(Ok(())) => {}
            Some(Err(e)) => v.push(("i-server-error".to_string(), format!("serving future ended with an error after the signal: {e}"))),
            None => v.push(("i-server-not-finished".to_string(), "serving future did not complete although the shutdown signal resolved".to_string())),
        }
        for t in s.tasks.iter().filter(|t| t.name.contains("ConnectionDriver")) {
            if !t.done {
                v.push(("iv-connection-not-closed".to_string(), format!("a server connection task ({}) is still alive at quiescence after the signal although clients are idle", t.name)));
            }
        }
        for id in 70..70 + n_silent {
            if o.notes.iter().any(|n| *n == format!("silent{id} connected")) && !o.client_conn_closed.contains_key(&id) {
                v.push(("v-silent-connection-open".to_string(), format!("client {id} connected and stayed silent; the server has not closed that connection after shutdown")));
            }
        }
        for id in 1..=n_clients {
            if matches!(o.responses.get(&id), Some(Ok(_))) && !o.client_conn_closed.contains_key(&id) {
                v.push(("v-idle-connection-open".to_string(), format!("client {id} holds an idle keep-alive connection that the server has not closed after shutdown")));
            }
        }
        *checked2.lock().unwrap() = Some(v);
    }));
    // clients are released only after the post-signal checkpoint has been evaluated
    let hold3 = hold.clone();
    let checked3 = checked.clone();
    s.env("release-clients", true, move |s| s.envs[signal_env].fired && checked3.lock().unwrap().is_some(), move |_s| hold3.open());
    let keep_alive_client = client; // dropping the last DuplexClient is listener loss, not part of this scenario
    s.run();
    let mut viols: Vec<(String, String)> = checked.lock().unwrap().clone().unwrap_or_default();
    {
        let o = obs.lock().unwrap();
        if let Some(m) = &s.replay_error {
            viols.push(("machinery".into(), m.clone()));
        }
        if s.livelock {
            viols.push(("livelock".into(), "execution did not quiesce within the horizon".into()));
        }
        for (t, p) in s.panics() {
            viols.push(("panic".into(), format!("task {t} panicked: {p}")));
        }
        if checked.lock().unwrap().is_none() {
            viols.push(("no-quiescence-after-signal".into(), "the post-signal checkpoint was never reached".into()));
        }
        if let Some(Err(e)) = &o.server_result {
            viols.push(("i-server-error".into(), format!("serving future ended with an error: {e}")));
        }
        // (iii) every request whose handler had been entered when the signal fired gets its complete response
        for id in o.entered_at_signal.clone().unwrap_or_default() {
            let want = expected_resp(id, "srv");
            match o.responses.get(&id) {
                Some(Ok(r)) if *r == want => {}
                other => viols.push(("iii-started-request-not-answered".into(), format!("request {id} had reached its handler when the signal fired but its client saw {other:?}"))),
            }
        }
        // every response that did arrive must be intact
        for (id, r) in o.responses.iter() {
            if let Ok(r) = r {
                if *id != 99 && *r != expected_resp(*id, "srv") {
                    viols.push(("response-corrupt".into(), format!("client {id} received {r:?}")));
                }
            }
        }
        // (ii) nothing accepted after the signal is served
        if o.handler_entered.contains(&99) {
            viols.push(("ii-late-connection-served".into(), "a connection made after the shutdown signal reached the request handler".into()));
        }
        if scn.late_client {
            match o.responses.get(&99) {
                Some(Err(_)) => {}
                other => viols.push(("ii-late-client-not-refused".into(), format!("a client connecting after the signal saw {other:?} instead of a failed connect / closed connection"))),
            }
        }
    }
    let signal_point = s.points.iter().position(|p| p.what == "env signal");
    let o = obs.lock().unwrap();
    let trace = format!(
        "srv={:?} entered={:?} at_signal={:?} responses={:?} closed={:?}",
        o.server_result,
        o.handler_entered,
        o.entered_at_signal,
        o.responses.iter().map(|(k, v)| (*k, v.as_ref().map(|r| r.status).map_err(|e| e.split(':').next().unwrap_or("").to_string()))).collect::<Vec<_>>(),
        o.client_conn_closed.keys().collect::<Vec<_>>()
    );
    drop(o);
    let schedule_text = s.schedule_text();
    let points = s.points.clone();
    s.teardown();
    drop(keep_alive_client);
    Execution {
        points,
        outcome: Outcome {
            viols,
            trace,
            schedule: schedule_text,
            signal_point,
        },
    }
}

pub fn scenarios(thorough: bool) -> Vec<Scn> {
    let mut v = vec![];
    let mk = |name: &str, srv, clients: Vec<Proto>, late, bufsize| Scn {
        name: name.to_string(),
        srv,
        silent: vec![],
        clients,
        late_client: late,
        bufsize,
        tls: false,
        keep_future: false,
    };
    let mks = |name: &str, srv, silent: Vec<usize>, clients: Vec<Proto>| Scn {
        name: name.to_string(),
        srv,
        silent,
        clients,
        late_client: false,
        bufsize: 1024,
        tls: false,
        keep_future: false,
    };
    v.push(mk("h1-0conn", SrvProto::Http1, vec![], false, 1024));
    v.push(mk("h1-1conn", SrvProto::Http1, vec![Proto::H1], false, 1024));
    v.push(mk("h2-1conn", SrvProto::Http2, vec![Proto::H2], false, 1024));
    v.push(mk("auto-1conn-h1", SrvProto::Auto, vec![Proto::H1], false, 1024));
    v.push(mk("auto-1conn-h2", SrvProto::Auto, vec![Proto::H2], false, 1024));
    v.push(mk("auto-1conn-h1-late", SrvProto::Auto, vec![Proto::H1], true, 1024));
    v.push(mk("h1-1conn-smallbuf", SrvProto::Http1, vec![Proto::H1], false, 16));
    v.push(mk("h1-2conn", SrvProto::Http1, vec![Proto::H1, Proto::H1], false, 1024));
    v.push(mk("auto-2conn-mixed", SrvProto::Auto, vec![Proto::H1, Proto::H2], false, 1024));
    // the completed server future kept alive by its caller until the end
    v.push(Scn { keep_future: true, ..mk("h1-1conn-future-kept", SrvProto::Http1, vec![Proto::H1], false, 1024) });
    v.push(Scn { keep_future: true, ..mk("auto-2conn-mixed-future-kept", SrvProto::Auto, vec![Proto::H1, Proto::H2], false, 1024) });
    v.push(Scn { keep_future: true, ..mks("auto-silent-future-kept", SrvProto::Auto, vec![0], vec![]) });
    // connections that are open but have not sent a (complete) first request when the signal comes
    v.push(mks("auto-silent", SrvProto::Auto, vec![0], vec![]));
    v.push(mks("auto-partial-preface", SrvProto::Auto, vec![10], vec![]));
    v.push(mks("h1-silent", SrvProto::Http1, vec![0], vec![]));
    v.push(mks("h2-silent", SrvProto::Http2, vec![0], vec![]));
    v.push(mks("auto-silent+h1", SrvProto::Auto, vec![0], vec![Proto::H1]));
    // the same over a TLS-terminating acceptor: handshakes in flight, silent and half-said hellos
    let tls = |mut s: Scn| {
        s.name = format!("tls-{}", s.name);
        s.tls = true;
        s
    };
    v.push(tls(mk("h1-1conn", SrvProto::Http1, vec![Proto::H1], false, 1024)));
    v.push(tls(mk("auto-1conn-h1", SrvProto::Auto, vec![Proto::H1], false, 1024)));
    v.push(tls(mks("auto-silent", SrvProto::Auto, vec![0], vec![])));
    v.push(tls(mks("auto-partial-hello", SrvProto::Auto, vec![40], vec![])));
    v.push(tls(mks("h1-partial-hello", SrvProto::Http1, vec![40], vec![])));
    if thorough {
        v.push(tls(mk("auto-1conn-h2", SrvProto::Auto, vec![Proto::H2], false, 1024)));
        v.push(tls(mk("auto-1conn-h1-late", SrvProto::Auto, vec![Proto::H1], true, 1024)));
        v.push(tls(mks("h2-silent", SrvProto::Http2, vec![0], vec![])));
        v.push(tls(mks("auto-silent+h1", SrvProto::Auto, vec![0], vec![Proto::H1])));
    }
    if thorough {
        v.push(mks("auto-two-silent+h2", SrvProto::Auto, vec![0, 23], vec![Proto::H2]));
        v.push(mk("h2-2conn", SrvProto::Http2, vec![Proto::H2, Proto::H2], false, 1024));
        v.push(mk("h2-1conn-late", SrvProto::Http2, vec![Proto::H2], true, 1024));
        v.push(mk("auto-1conn-h2-smallbuf", SrvProto::Auto, vec![Proto::H2], false, 16));
    }
    v
}

pub fn run(args: &Args) -> i32 {
    let thorough = args.tier.is_thorough();
    if let Some(p) = &args.replay {
        return replay(p);
    }
    std::panic::set_hook(Box::new(|_| {}));
    let mut run = Run::new("C07", args.tier, "model_checking");
    let scns = scenarios(thorough);
    let results = crate::evidence::par_map(scns.len(), crate::evidence::n_threads(), |i| {
        let scn = &scns[i];
        let two = scn.clients.len() + scn.silent.len() >= 2;
        let bound = match (thorough, two) {
            (false, false) => 3,
            (false, true) => 2,
            (true, false) => 4,
            (true, true) => 3,
        };
        let mut traces: BTreeSet<String> = BTreeSet::new();
        let mut signal_points: BTreeSet<usize> = BTreeSet::new();
        let mut found: Vec<(String, String, Vec<usize>, Vec<String>)> = vec![];
        crate::evidence::watchdog::set_context(json!({"engine":"schedmc-c07","scenario":scn.name}));
        let stats = explore(
            bound,
            if thorough { 6_000_000 } else { 300_000 },
            |prefix| run_one(scn, prefix),
            |prefix, _dev, ex| {
                traces.insert(ex.outcome.trace.clone());
                if let Some(p) = ex.outcome.signal_point {
                    signal_points.insert(p);
                }
                for (sub, msg) in &ex.outcome.viols {
                    if !found.iter().any(|f| f.0 == *sub) {
                        found.push((sub.clone(), msg.clone(), prefix.to_vec(), ex.outcome.schedule.clone()));
                    }
                }
                true
            },
        );
        (stats, traces.len(), signal_points.len(), found, bound)
    });
    let _ = std::panic::take_hook();
    let mut evaluations = 0;
    let mut distinct = 0;
    let mut per = vec![];
    let mut exhaustive = true;
    let mut machinery: Option<String> = None;
    // determinism self-check: the default schedule of every scenario, executed twice, must give identical traces
    let mut determinism_checks = 0u64;
    for scn in &scns {
        let a = run_one(scn, &[]);
        let b = run_one(scn, &[]);
        determinism_checks += 1;
        if a.outcome.trace != b.outcome.trace || a.outcome.schedule != b.outcome.schedule {
            machinery = Some(format!("scenario {} is not deterministic under the controlled executor", scn.name));
        }
    }
    run.cov("determinism_double_runs", determinism_checks);
    for (i, (stats, ntr, nsig, found, bound)) in results.into_iter().enumerate() {
        let scn = &scns[i];
        evaluations += stats.executions;
        distinct += ntr as u64;
        if stats.capped {
            exhaustive = false;
        }
        println!("  [{}] executions={} by-deviations={:?} default-points={} max-points={} max-runnable={} concurrent-execs={} distinct-traces={} signal-positions={}{}",
            scn.name, stats.executions, stats.by_deviations, stats.default_points, stats.max_points, stats.max_runnable, stats.with_concurrency, ntr, nsig, if stats.capped { " CAPPED" } else { "" });
        per.push(json!({"scenario": scn.name, "deviation_bound": bound, "executions": stats.executions, "by_deviations": stats.by_deviations, "scheduling_points_default": stats.default_points,
            "max_points": stats.max_points, "max_runnable": stats.max_runnable, "executions_with_two_or_more_runnable": stats.with_concurrency, "distinct_observation_traces": ntr, "distinct_signal_positions": nsig, "capped": stats.capped}));
        for (sub, msg, prefix, sched) in found {
            if sub == "machinery" {
                machinery = Some(msg.clone());
                continue;
            }
            run.violation(format!("{sub} scenario={}", scn.name), format!("{msg}; scenario {} schedule {:?}", scn.name, sched),
                json!({"engine":"schedmc-c07","scenario":scn.name,"schedule":prefix}));
        }
    }
    run.cov("evaluations", evaluations);
    run.cov("distinct_nontrivial", distinct);
    run.cov("schedules_executed_on_real_code", evaluations);
    run.cov("scenarios", per);
    run.cov("exhaustive", exhaustive);
    run.cov("rule", "for each scenario (server protocol x client connections x late client x buffer size) every schedule of the real server + raw hyper clients under the deterministic executor with at most `deviation_bound` deviations from FIFO-by-wake order; firing the shutdown signal at a scheduling point is one kind of deviation, so the signal lands at every point of the default schedule and, with the remaining budget, at every point of every once-deviated schedule; distinct = distinct observation traces (server result, handlers entered, handlers entered at signal time, per-client outcome, closed connections)");
    run.cov("samples", vec![json!({"scenario":"auto-1conn-h1","schedule":"default FIFO; signal fired at the first quiescent point","expect":"response complete; serving future Ok; connection task finished; idle connection closed"})]);
    run.assume("no timers: hyper without a Timer, clients hold their connections until released; a request counts as 'started to handle' once the service was called");
    run.assume("deviation-bounded: schedules with more deviations than the bound are not explored");
    if let Some(m) = machinery {
        println!("MACHINERY-ERROR {m}");
        let _ = run.finish();
        return 2;
    }
    run.finish()
}

fn replay(path: &str) -> i32 {
    let text = std::fs::read_to_string(path).expect("replay file");
    let doc: serde_json::Value = serde_json::from_str(&text).expect("json");
    let rp = doc.get("replay").cloned().unwrap_or(doc);
    let name = rp.get("scenario").and_then(|x| x.as_str()).unwrap_or("");
    let sched: Vec<usize> = rp.get("schedule").and_then(|x| x.as_array()).map(|a| a.iter().filter_map(|x| x.as_u64().map(|x| x as usize)).collect()).unwrap_or_default();
    let Some(scn) = scenarios(true).into_iter().find(|s| s.name == name) else {
        println!("MACHINERY-ERROR unknown scenario {name}");
        return 2;
    };
    let a = run_one(&scn, &sched);
    let b = run_one(&scn, &sched);
    if a.outcome.trace != b.outcome.trace || a.outcome.schedule != b.outcome.schedule {
        for (i, (x, y)) in a.outcome.schedule.iter().zip(b.outcome.schedule.iter()).enumerate() {
            if x != y || a.points[i].menu_len != b.points[i].menu_len {
                println!("first difference at point {i}: {x} (menu {}) vs {y} (menu {})", a.points[i].menu_len, b.points[i].menu_len);
                for j in i.saturating_sub(6)..i {
                    println!("   {j}: {} (menu {})", a.outcome.schedule[j], a.points[j].menu_len);
                }
                break;
            }
        }
        println!("lens {} {}", a.outcome.schedule.len(), b.outcome.schedule.len());
        println!("MACHINERY-ERROR replay diverged");
        return 2;
    }
    for l in &a.outcome.schedule {
        println!("  {l}");
    }
    println!("  trace: {}", a.outcome.trace);
    if a.outcome.viols.is_empty() {
        println!("replay holds");
        0
    } else {
        for (s, m) in &a.outcome.viols {
            println!("  {s}: {m}");
        }
        println!("VIOLATION property=C07 replay={path}");
        1
    }
}
