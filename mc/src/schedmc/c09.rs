//! C09 — one misbehaving connection never takes the server down: fault kind x every position x
//! deviation-bounded schedules, one well-behaved connection in flight, a probe connection afterwards.

use super::common::*;
use crate::det::{explore, Execution, Sched};
use crate::evidence::{Args, Run};
use hyperdriver::server::conn::Acceptor;
use hyperdriver::server::AutoBuilder;
use hyperdriver::stream::duplex::{self, DuplexClient};
use hyperdriver::{Body, Server};
use serde_json::json;
use std::collections::BTreeSet;
use std::future::Future;
use std::pin::Pin;
use std::sync::Arc;
use std::task::{Context, Poll};
use tokio::io::{AsyncReadExt, AsyncWriteExt};

#[derive(Clone, Debug, PartialEq, Eq)]
pub enum Fault {
    None,
    /// drop the connect future after n polls
    ConnectCancel(usize),
    /// connect, then drop the stream at once
    AcceptClose,
    /// write these bytes then close (false) or stall forever (true)
    Bytes { name: &'static str, bytes: Vec<u8>, stall: bool },
    /// send a complete request, read n bytes of the response, then close
    ResponseTruncated(usize),
    /// the handler returns an error for this request
    HandlerError,
    /// the client asks for an in-memory stream with this (degenerate) buffer size, writes a request into it and leaves
    ConnectBuf(usize),
}

impl Fault {
    fn label(&self) -> String {
        match self {
            Fault::None => "none".into(),
            Fault::ConnectCancel(n) => format!("connect-cancel-after-{n}-polls"),
            Fault::AcceptClose => "accept-then-close".into(),
            Fault::Bytes { name, bytes, stall } => format!("{name}[{}]-then-{}", bytes.len(), if *stall { "stall" } else { "close" }),
            Fault::ResponseTruncated(n) => format!("response-read-{n}-then-close"),
            Fault::HandlerError => "handler-error".into(),
            Fault::ConnectBuf(n) => format!("connect-with-buffer-{n}"),
        }
    }
    fn class(&self) -> String {
        match self {
            Fault::None => "none".into(),
            Fault::ConnectCancel(_) => "connect-cancel".into(),
            Fault::AcceptClose => "accept-then-close".into(),
            Fault::Bytes { name, stall, .. } => format!("{name}-then-{}", if *stall { "stall" } else { "close" }),
            Fault::ResponseTruncated(_) => "response-truncated".into(),
            Fault::HandlerError => "handler-error".into(),
            Fault::ConnectBuf(_) => "connect-with-degenerate-buffer".into(),
        }
    }
}

#[derive(Clone, Copy, Debug, PartialEq, Eq)]
pub enum Acc {
    /// DuplexIncoming used directly as the acceptor
    Duplex,
    /// the `Acceptor` enum wrapping the duplex incoming
    Wrapped,
    /// `Acceptor` with TLS
    Tls,
    /// `Acceptor` over a listener with a backlog (as a TCP or Unix listener has): the faulty client's connection
    /// is established, written to (and possibly closed) BEFORE the accept loop picks it up
    Backlog,
    /// the same with TLS
    BacklogTls,
}

/// A listener with a backlog: connections queued by `Backlog::push` are handed out first, then whatever the
/// in-memory duplex listener accepts. What is handed out is the library's own `DuplexStream`.
pub struct BacklogIncoming {
    queue: Backlog,
    inner: duplex::DuplexIncoming,
}

#[derive(Clone, Default)]
pub struct Backlog(Arc<std::sync::Mutex<(std::collections::VecDeque<duplex::DuplexStream>, Option<std::task::Waker>)>>);

impl Backlog {
    fn push(&self, s: duplex::DuplexStream) {
        let w = {
            let mut g = self.0.lock().unwrap();
            g.0.push_back(s);
            g.1.take()
        };
        if let Some(w) = w {
            w.wake();
        }
    }
}

impl hyperdriver::server::conn::Accept for BacklogIncoming {
    type Conn = duplex::DuplexStream;
    type Error = std::io::Error;
    fn poll_accept(mut self: Pin<&mut Self>, cx: &mut Context<'_>) -> Poll<Result<Self::Conn, Self::Error>> {
        {
            let mut g = self.queue.0.lock().unwrap();
            if let Some(s) = g.0.pop_front() {
                return Poll::Ready(Ok(s));
            }
            g.1 = Some(cx.waker().clone());
        }
        hyperdriver::server::conn::Accept::poll_accept(Pin::new(&mut self.inner), cx)
    }
}

#[derive(Clone, Debug)]
pub struct Scn {
    pub acc: Acc,
    pub fault: Fault,
    pub good_in_flight: bool,
}

struct CancelAfter<F> {
    inner: Option<Pin<Box<F>>>,
    left: usize,
}
impl<F: Future> Future for CancelAfter<F> {
    type Output = Option<F::Output>;
    fn poll(mut self: Pin<&mut Self>, cx: &mut Context<'_>) -> Poll<Self::Output> {
        if self.left == 0 {
            self.inner = None;
            return Poll::Ready(None);
        }
        self.left -= 1;
        match self.inner.as_mut().unwrap().as_mut().poll(cx) {
            Poll::Ready(v) => Poll::Ready(Some(v)),
            Poll::Pending => {
                if self.left == 0 {
                    self.inner = None; // cancelled
                    Poll::Ready(None)
                } else {
                    Poll::Pending
                }
            }
        }
    }
}

pub fn good_request_bytes(id: u32) -> Vec<u8> {
    let body = req_body(id);
    let mut v = format!("POST /r{id}?q={id} HTTP/1.1\r\nhost: server.test\r\nx-id: {id}\r\ncontent-length: {}\r\n\r\n", body.len()).into_bytes();
    v.extend_from_slice(&body);
    v
}

async fn faulty_client(client: DuplexClient, fault: Fault, obs: Obs, stall: Gate, backlog: Option<Backlog>) {
    if let (Some(b), Fault::Bytes { bytes, stall: do_stall, .. }) = (&backlog, &fault) {
        // the bytes are in the connection's buffer (and, without a stall, the client is gone) before the listener
        // hands the connection to the accept loop
        let (mut mine, theirs) = duplex::DuplexStream::new(4096);
        let _ = mine.write_all(bytes).await;
        let _ = mine.flush().await;
        if *do_stall {
            b.push(theirs);
            stall.wait().await;
            drop(mine);
        } else {
            drop(mine);
            b.push(theirs);
        }
        return;
    }
    match fault {
        Fault::None | Fault::HandlerError => {}
        Fault::ConnectCancel(n) => {
            let c = client.clone();
            let r = CancelAfter { inner: Some(Box::pin(async move { c.connect(1024).await })), left: n }.await;
            obs.lock().unwrap().notes.push(format!("connect-cancel: {}", if r.is_some() { "completed" } else { "cancelled" }));
        }
        Fault::AcceptClose => {
            let _ = client.connect(1024).await;
        }
        Fault::ConnectBuf(n) => {
            // a zero-capacity stream can never carry a byte: one poll of the write is all it gets
            if let Ok(mut s) = client.connect(n).await {
                let bytes = good_request_bytes(77);
                let _ = futures_util::future::poll_fn(|cx| {
                    let _ = tokio::io::AsyncWrite::poll_write(Pin::new(&mut s), cx, &bytes);
                    Poll::Ready(())
                })
                .await;
                drop(s);
            }
        }
        Fault::Bytes { bytes, stall: do_stall, .. } => {
            if let Ok(mut s) = client.connect(1024).await {
                let _ = s.write_all(&bytes).await;
                let _ = s.flush().await;
                if do_stall {
                    stall.wait().await;
                }
                drop(s);
            }
        }
        Fault::ResponseTruncated(n) => {
            if let Ok(mut s) = client.connect(1024).await {
                let _ = s.write_all(&good_request_bytes(77)).await;
                let mut buf = vec![0u8; n];
                let mut got = 0;
                while got < n {
                    match s.read(&mut buf[got..]).await {
                        Ok(0) | Err(_) => break,
                        Ok(k) => got += k,
                    }
                }
                drop(s);
            }
        }
    }
}

macro_rules! spawn_plain_server {
    ($s:expr, $acceptor:expr, $obs:expr, $fail_id:expr) => {{
        let obs = $obs.clone();
        let obs_h = $obs.clone();
        let exec = $s.exec.clone();
        let fail_id: u32 = $fail_id;
        let svc = tower::service_fn(move |req: http::Request<Body>| {
            let obs_h = obs_h.clone();
            async move {
                let id: u32 = req.headers().get("x-id").and_then(|v| v.to_str().ok()).and_then(|s| s.parse().ok()).unwrap_or(0);
                if id == fail_id && id != 0 {
                    obs_h.lock().unwrap().handler_entered.push(id);
                    return Err::<http::Response<ChunkBody>, std::io::Error>(std::io::Error::other("handler failed"));
                }
                Ok(handler(obs_h, "srv", req).await.unwrap())
            }
        });
        let server = Server::builder().with_acceptor($acceptor).with_shared_service(svc).with_protocol(AutoBuilder::new(exec.clone())).with_executor(exec);
        $s.spawn("server", async move {
            let r = server.await;
            obs.lock().unwrap().server_result = Some(r.map_err(|e| e.to_string()));
        });
    }};
}

#[derive(Debug, Clone)]
pub struct Outcome {
    pub viols: Vec<(String, String)>,
    pub trace: String,
    pub schedule: Vec<String>,
}

pub fn run_one(scn: &Scn, schedule: &[usize], tls: Option<&super::tlsfix::TlsFixture>) -> Execution<Outcome> {
    let mut s = Sched::new(schedule.to_vec());
    let obs = new_obs();
    let (client, incoming) = duplex::pair();
    let backlog = Backlog::default();
    let fail_id = if scn.fault == Fault::HandlerError { 77 } else { 0 };
    match scn.acc {
        Acc::Duplex => spawn_plain_server!(s, incoming, obs, fail_id),
        Acc::Wrapped => spawn_plain_server!(s, Acceptor::from(incoming), obs, fail_id),
        Acc::Tls => {
            let cfg = tls.expect("tls fixture").server_config.clone();
            spawn_plain_server!(s, Acceptor::from(incoming).with_tls(cfg), obs, fail_id)
        }
        Acc::Backlog => spawn_plain_server!(s, Acceptor::new(BacklogIncoming { queue: backlog.clone(), inner: incoming }), obs, fail_id),
        Acc::BacklogTls => {
            let cfg = tls.expect("tls fixture").server_config.clone();
            spawn_plain_server!(s, Acceptor::new(BacklogIncoming { queue: backlog.clone(), inner: incoming }).with_tls(cfg), obs, fail_id)
        }
    }
    let hold = Gate::new();
    let stall = Gate::new();
    hold.open(); // well-behaved clients release their connection as soon as they are done
    let connector = tls.map(|t| t.any_cert_connector.clone());
    let is_tls = matches!(scn.acc, Acc::Tls | Acc::BacklogTls);
    let use_backlog = matches!(scn.acc, Acc::Backlog | Acc::BacklogTls);
    if scn.good_in_flight {
        if is_tls {
            s.spawn("good1", super::tlsfix::tls_good_client(client.clone(), s.exec.clone(), connector.clone().unwrap(), 1, obs.clone()));
        } else {
            s.spawn("good1", raw_client(client.clone(), s.exec.clone(), Proto::H1, 1, 1024, obs.clone(), hold.clone()));
        }
    }
    if scn.fault == Fault::HandlerError {
        if is_tls {
            s.spawn("faulty", super::tlsfix::tls_good_client(client.clone(), s.exec.clone(), connector.clone().unwrap(), 77, obs.clone()));
        } else {
            s.spawn("faulty", raw_client(client.clone(), s.exec.clone(), Proto::H1, 77, 1024, obs.clone(), hold.clone()));
        }
    } else if scn.fault != Fault::None {
        s.spawn("faulty", faulty_client(client.clone(), scn.fault.clone(), obs.clone(), stall.clone(), if use_backlog { Some(backlog.clone()) } else { None }));
    }
    // after everything has gone quiet: the server must still be serving; a probe must be served
    let obs_p = obs.clone();
    let c2 = client.clone();
    let hold2 = hold.clone();
    let pending_before_probe = Arc::new(std::sync::Mutex::new(None::<bool>));
    let pb = pending_before_probe.clone();
    s.env("probe", true, |_| true, move |s| {
        *pb.lock().unwrap() = Some(obs_p.lock().unwrap().server_result.is_none());
        let exec = s.exec.clone();
        if is_tls {
            s.spawn("probe", super::tlsfix::tls_good_client(c2, exec, connector.unwrap(), 50, obs_p));
        } else {
            s.spawn("probe", raw_client(c2, exec, Proto::H1, 50, 1024, obs_p, hold2));
        }
    });
    let keep = client;
    s.run();
    let mut viols = vec![];
    {
        let o = obs.lock().unwrap();
        if let Some(m) = &s.replay_error {
            viols.push(("machinery".into(), m.clone()));
        }
        if s.livelock {
            viols.push(("livelock".into(), "execution did not quiesce within the horizon".into()));
        }
        for (t, p) in s.panics() {
            viols.push(("panic".into(), format!("task {t} panicked: {p}")));
        }
        if let Some(r) = &o.server_result {
            viols.push(("server-ended".into(), format!("the serving future ended ({r:?}) although only one client misbehaved")));
        }
        if *pending_before_probe.lock().unwrap() == Some(false) && o.server_result.is_none() {
            viols.push(("server-ended".into(), "the serving future had ended before the probe".into()));
        }
        if scn.good_in_flight {
            match o.responses.get(&1) {
                Some(Ok(r)) if *r == expected_resp(1, "srv") => {}
                other => viols.push(("good-request-disturbed".into(), format!("the well-behaved request on another connection saw {other:?}"))),
            }
        }
        match o.responses.get(&50) {
            Some(Ok(r)) if *r == expected_resp(50, "srv") => {}
            other => viols.push(("probe-not-served".into(), format!("a fresh well-behaved connection after the fault saw {other:?}"))),
        }
    }
    let o = obs.lock().unwrap();
    let trace = format!(
        "srv={:?} entered={:?} responses={:?} notes={:?}",
        o.server_result,
        o.handler_entered,
        o.responses.iter().map(|(k, v)| (*k, v.as_ref().map(|r| r.status).map_err(|e| e.split(':').next().unwrap_or("").to_string()))).collect::<Vec<_>>(),
        o.notes
    );
    drop(o);
    let schedule_text = s.schedule_text();
    let points = s.points.clone();
    stall.open();
    s.teardown();
    drop(keep);
    Execution {
        points,
        outcome: Outcome {
            viols,
            trace,
            schedule: schedule_text,
        },
    }
}

pub fn faults(thorough: bool, tls: Option<&super::tlsfix::TlsFixture>) -> Vec<(Acc, Fault)> {
    let mut v: Vec<(Acc, Fault)> = vec![];
    let good = good_request_bytes(77);
    for acc in [Acc::Duplex, Acc::Wrapped] {
        v.push((acc, Fault::None));
        for n in 0..=4 {
            v.push((acc, Fault::ConnectCancel(n)));
        }
        v.push((acc, Fault::AcceptClose));
        v.push((acc, Fault::HandlerError));
        v.push((acc, Fault::ConnectBuf(0)));
        v.push((acc, Fault::ConnectBuf(1)));
        v.push((acc, Fault::Bytes { name: "garbage", bytes: b"\x00\xff\x10garbage\r\n\r\n".to_vec(), stall: false }));
        v.push((acc, Fault::Bytes { name: "garbage", bytes: b"\x00\xff\x10garbage\r\n\r\n".to_vec(), stall: true }));
        v.push((acc, Fault::Bytes { name: "h2-preface-then-garbage", bytes: [crate::props::iomc::PREFACE, b"xxxxxxxxxxxxxxxx"].concat(), stall: false }));
        if acc == Acc::Duplex || thorough {
            // a valid request truncated at every byte offset of head and body
            for k in 0..good.len() {
                for stall in [false, true] {
                    v.push((acc, Fault::Bytes { name: "request-truncated", bytes: good[..k].to_vec(), stall }));
                }
            }
            let resp_len = 160;
            let step = if thorough { 1 } else { 7 };
            for n in (0..resp_len).step_by(step) {
                v.push((acc, Fault::ResponseTruncated(n)));
            }
        } else {
            for k in [0usize, 1, 10, 40, good.len() - 1] {
                v.push((acc, Fault::Bytes { name: "request-truncated", bytes: good[..k].to_vec(), stall: false }));
            }
            v.push((acc, Fault::ResponseTruncated(10)));
        }
    }
    if let Some(t) = tls {
        let acc = Acc::Tls;
        v.push((acc, Fault::None));
        for n in 0..=3 {
            v.push((acc, Fault::ConnectCancel(n)));
        }
        v.push((acc, Fault::AcceptClose));
        v.push((acc, Fault::HandlerError));
        // plaintext to the TLS port
        v.push((acc, Fault::Bytes { name: "plaintext-to-tls", bytes: good.clone(), stall: false }));
        v.push((acc, Fault::Bytes { name: "plaintext-to-tls", bytes: good.clone(), stall: true }));
        // ClientHello truncated at every offset: then close / then stall (stalled handshake)
        let hello = &t.client_hello;
        let step = if thorough { 1 } else { 3 };
        for k in (0..=hello.len()).step_by(step) {
            for stall in [false, true] {
                v.push((acc, Fault::Bytes { name: "client-hello-truncated", bytes: hello[..k].to_vec(), stall }));
            }
        }
        // complete hello followed by a fatal alert (bad certificate) instead of the client's flight
        let mut h = hello.clone();
        h.extend_from_slice(&[0x15, 0x03, 0x03, 0x00, 0x02, 0x02, 0x2a]);
        v.push((acc, Fault::Bytes { name: "hello-then-bad-certificate-alert", bytes: h.clone(), stall: false }));
        // a listener with a backlog: what the client wrote is already buffered (and the client may be gone) when the
        // connection reaches the accept loop — a handshake can fail on its very first poll
        let acc = Acc::BacklogTls;
        v.push((acc, Fault::Bytes { name: "backlog-plaintext-to-tls", bytes: good.clone(), stall: false }));
        v.push((acc, Fault::Bytes { name: "backlog-plaintext-to-tls", bytes: good.clone(), stall: true }));
        v.push((acc, Fault::Bytes { name: "backlog-nothing", bytes: vec![], stall: false }));
        v.push((acc, Fault::Bytes { name: "backlog-hello-then-bad-certificate-alert", bytes: h, stall: false }));
        let step = if thorough { 1 } else { 16 };
        for k in (0..=hello.len()).step_by(step) {
            for stall in [false, true] {
                v.push((acc, Fault::Bytes { name: "backlog-client-hello-truncated", bytes: hello[..k].to_vec(), stall }));
            }
        }
    }
    {
        let acc = Acc::Backlog;
        v.push((acc, Fault::Bytes { name: "backlog-nothing", bytes: vec![], stall: false }));
        v.push((acc, Fault::Bytes { name: "backlog-garbage", bytes: b"\x00\xff\x10garbage\r\n\r\n".to_vec(), stall: false }));
        v.push((acc, Fault::Bytes { name: "backlog-h2-preface-then-garbage", bytes: [crate::props::iomc::PREFACE, b"xxxxxxxxxxxxxxxx"].concat(), stall: false }));
        for k in [1usize, 10, 40, good.len() - 1, good.len()] {
            for stall in [false, true] {
                v.push((acc, Fault::Bytes { name: "backlog-request-truncated", bytes: good[..k].to_vec(), stall }));
            }
        }
    }
    v
}

pub fn run(args: &Args) -> i32 {
    let thorough = args.tier.is_thorough();
    let tls = super::tlsfix::TlsFixture::load();
    if let Some(p) = &args.replay {
        return replay(p, tls.as_ref().ok());
    }
    std::panic::set_hook(Box::new(|_| {}));
    let mut run = Run::new("C09", args.tier, "fault_enumeration");
    let tls_ref = tls.as_ref().ok();
    if let Err(e) = &tls {
        run.cov("tls_fixture_error", e.clone());
    }
    let fl = faults(thorough, tls_ref);
    let bound = if thorough { 3 } else { 2 };
    let results = crate::evidence::par_map(fl.len(), crate::evidence::n_threads(), |i| {
        let scn = Scn { acc: fl[i].0, fault: fl[i].1.clone(), good_in_flight: true };
        let mut traces: BTreeSet<String> = BTreeSet::new();
        let mut found: Vec<(String, String, Vec<usize>, Vec<String>)> = vec![];
        // quick: every position with <=1 deviation, a spread of positions with <=2;
        // thorough: every position with <=2 deviations, the non-positional faults and a spread of positions with <=3
        let spread = if thorough { 24 } else { 12 };
        let my_bound = match &scn.fault {
            Fault::Bytes { name, bytes, .. } if (*name == "request-truncated" || *name == "client-hello-truncated") && bytes.len() % spread != 0 => bound - 1,
            Fault::ResponseTruncated(n) if n % (if thorough { 40 } else { 21 }) != 0 => bound - 1,
            _ => bound,
        };
        crate::evidence::watchdog::set_context(json!({"engine":"schedmc-c09","fault_index":i,"fault":fl[i].1.label(),"acceptor":format!("{:?}", fl[i].0),"tier": if thorough {"thorough"} else {"quick"}}));
        let stats = explore(
            my_bound,
            if thorough { 250_000 } else { 30_000 },
            |prefix| run_one(&scn, prefix, tls_ref),
            |prefix, _d, ex| {
                traces.insert(ex.outcome.trace.clone());
                for (sub, msg) in &ex.outcome.viols {
                    if !found.iter().any(|f| f.0 == *sub) {
                        found.push((sub.clone(), msg.clone(), prefix.to_vec(), ex.outcome.schedule.clone()));
                    }
                }
                true
            },
        );
        (stats, traces, found)
    });
    let _ = std::panic::take_hook();
    let mut evaluations = 0u64;
    let mut all_traces: BTreeSet<String> = BTreeSet::new();
    let mut by_class: std::collections::BTreeMap<String, (u64, u64)> = Default::default();
    let mut exhaustive = true;
    let mut machinery = None;
    for (i, (stats, traces, found)) in results.into_iter().enumerate() {
        evaluations += stats.executions;
        if stats.capped {
            exhaustive = false;
        }
        let key = format!("{:?}/{}", fl[i].0, fl[i].1.class());
        let e = by_class.entry(key).or_default();
        e.0 += 1;
        e.1 += stats.executions;
        for t in traces {
            all_traces.insert(format!("{:?}|{}|{t}", fl[i].0, fl[i].1.class()));
        }
        for (sub, msg, prefix, sched) in found {
            if sub == "machinery" {
                machinery = Some(msg.clone());
                continue;
            }
            run.violation(format!("{sub} acceptor={:?} fault={}", fl[i].0, fl[i].1.class()), format!("{msg}; acceptor {:?}, fault {}, schedule {:?}", fl[i].0, fl[i].1.label(), sched),
                json!({"engine":"schedmc-c09","fault_index":i,"fault":fl[i].1.label(),"acceptor":format!("{:?}", fl[i].0),"schedule":prefix,"tier": if thorough {"thorough"} else {"quick"}}));
        }
    }
    std::panic::set_hook(Box::new(|_| {}));
    let socks = socket_scripts();
    let _ = std::panic::take_hook();
    match socks {
        Ok(n) => run.cov("socket_scripts_real_tcp_unix", n),
        Err(e) => run.violation(format!("socket-script {}", e.split(':').next().unwrap_or("")), format!("supplementary real-socket script: {e}"), json!({"engine":"schedmc-c09-sockets","what":e})),
    }
    run.cov("evaluations", evaluations);
    run.cov("distinct_nontrivial", all_traces.len() as u64);
    run.cov("fault_positions", fl.len() as u64);
    run.cov("deviation_bound", bound as u64);
    run.cov("by_fault_class", by_class.iter().map(|(k, v)| json!({"class": k, "positions": v.0, "executions": v.1})).collect::<Vec<_>>());
    run.cov("exhaustive", exhaustive);
    run.cov("rule", "fault menu (connect future cancelled after n polls, accept then close, garbage, h2 preface then garbage, a valid request truncated at EVERY byte offset then close / then stall, response read truncated, handler error; with the TLS acceptor: plaintext to the TLS port, ClientHello truncated at offsets then close / stall, fatal alert after the hello) x acceptor (duplex incoming, Acceptor enum, Acceptor with TLS) x every schedule with at most `deviation_bound` deviations, one well-behaved request in flight and a probe connection afterwards; distinct = distinct (acceptor, fault class, observation trace)");
    run.cov("samples", vec![json!({"acceptor":"Duplex","fault":"connect-cancel-after-1-polls","expect":"serving future still pending, request 1 and probe 50 answered intact"})]);
    run.assume("TCP and Unix listeners are not explored under the controlled scheduler (the kernel is not ours to schedule): a fixed set of sequential fault scripts (reset / close before accept, garbage, truncated request, reset after request) runs against real sockets in a tokio runtime as a supplementary, one-sided check");
    run.assume("no timers: a stalled peer stalls its own connection forever and nothing else");
    if let Some(m) = machinery {
        println!("MACHINERY-ERROR {m}");
        let _ = run.finish();
        return 2;
    }
    run.finish()
}

/// Supplementary, one-sided: the same kinds of fault against REAL TCP and Unix listeners inside a
/// tokio runtime (no schedule control — the kernel decides). Each script: misbehaving client(s), then
/// a well-behaved request; the serving task must still be running and the request answered.
fn socket_scripts() -> Result<u64, String> {
    use hyper::rt::Executor as _;
    use std::time::Duration;
    let rt = tokio::runtime::Builder::new_current_thread().enable_all().build().map_err(|e| e.to_string())?;
    let dir = tempfile::Builder::new().prefix("hdmc-sock").tempdir_in("/verif/target").map_err(|e| e.to_string())?;
    let mut n = 0u64;
    #[derive(Clone, Copy, Debug)]
    enum SockFault {
        None,
        ResetBeforeAccept,
        CloseBeforeAccept,
        GarbageThenClose,
        TruncatedRequest,
        ResetAfterRequest,
        /// a Unix-domain client whose own socket is bound to a path that is not UTF-8
        NonUtf8PeerPath,
    }
    let faults = [SockFault::None, SockFault::ResetBeforeAccept, SockFault::CloseBeforeAccept, SockFault::GarbageThenClose, SockFault::TruncatedRequest, SockFault::ResetAfterRequest, SockFault::NonUtf8PeerPath];
    for unix in [false, true] {
        for fault in faults {
            if unix && matches!(fault, SockFault::ResetBeforeAccept | SockFault::ResetAfterRequest) {
                continue; // no RST on unix sockets
            }
            if !unix && matches!(fault, SockFault::NonUtf8PeerPath) {
                continue;
            }
            let obs = new_obs();
            let sock_path = dir.path().join(format!("s{n}.sock"));
            let r: Result<(), String> = rt.block_on(async {
                let obs_h = obs.clone();
                let svc = tower::service_fn(move |req: http::Request<Body>| handler(obs_h.clone(), "srv", req));
                let (acceptor, tcp_addr): (Acceptor, Option<std::net::SocketAddr>) = if unix {
                    let l = tokio::net::UnixListener::bind(&sock_path).map_err(|e| e.to_string())?;
                    (Acceptor::from(l), None)
                } else {
                    let l = tokio::net::TcpListener::bind("127.0.0.1:0").await.map_err(|e| e.to_string())?;
                    let a = l.local_addr().map_err(|e| e.to_string())?;
                    (Acceptor::from(l), Some(a))
                };
                // faults that must already sit in the accept backlog when the server starts
                match (fault, tcp_addr) {
                    (SockFault::ResetBeforeAccept, Some(a)) => {
                        let s = std::net::TcpStream::connect(a).map_err(|e| e.to_string())?;
                        socket2::SockRef::from(&s).set_linger(Some(Duration::ZERO)).map_err(|e| e.to_string())?;
                        drop(s);
                        tokio::time::sleep(Duration::from_millis(30)).await;
                    }
                    (SockFault::CloseBeforeAccept, Some(a)) => {
                        drop(std::net::TcpStream::connect(a).map_err(|e| e.to_string())?);
                        tokio::time::sleep(Duration::from_millis(30)).await;
                    }
                    (SockFault::CloseBeforeAccept, None) => {
                        drop(std::os::unix::net::UnixStream::connect(&sock_path).map_err(|e| e.to_string())?);
                        tokio::time::sleep(Duration::from_millis(30)).await;
                    }
                    _ => {}
                }
                let server = Server::builder().with_acceptor(acceptor).with_shared_service(svc).with_auto_http().with_tokio();
                let handle = tokio::spawn(async move { server.await.map_err(|e| e.to_string()) });
                // faults after the server is up
                use tokio::io::AsyncWriteExt;
                let bytes: Option<Vec<u8>> = match fault {
                    SockFault::GarbageThenClose => Some(b"\x00\xffgarbage\r\n\r\n".to_vec()),
                    SockFault::TruncatedRequest => Some(good_request_bytes(77)[..40].to_vec()),
                    SockFault::ResetAfterRequest => Some(good_request_bytes(77)),
                    _ => None,
                };
                if matches!(fault, SockFault::NonUtf8PeerPath) {
                    use std::os::unix::ffi::OsStrExt;
                    let mut raw = dir.path().as_os_str().as_bytes().to_vec();
                    raw.extend_from_slice(b"/peer-\xff\xfe.sock");
                    let peer_path = std::path::PathBuf::from(std::ffi::OsStr::from_bytes(&raw));
                    let sock = socket2::Socket::new(socket2::Domain::UNIX, socket2::Type::STREAM, None).map_err(|e| e.to_string())?;
                    sock.bind(&socket2::SockAddr::unix(&peer_path).map_err(|e| e.to_string())?).map_err(|e| format!("bind non-utf8 path: {e}"))?;
                    sock.connect(&socket2::SockAddr::unix(&sock_path).map_err(|e| e.to_string())?).map_err(|e| format!("connect from non-utf8 path: {e}"))?;
                    use std::io::Write;
                    let mut st: std::os::unix::net::UnixStream = sock.into();
                    let _ = st.write_all(&good_request_bytes(77));
                    tokio::time::sleep(Duration::from_millis(30)).await;
                    drop(st);
                    let _ = std::fs::remove_file(&peer_path);
                    tokio::time::sleep(Duration::from_millis(30)).await;
                }
                if let Some(b) = bytes {
                    if let Some(a) = tcp_addr {
                        let mut s = tokio::net::TcpStream::connect(a).await.map_err(|e| e.to_string())?;
                        let _ = s.write_all(&b).await;
                        if matches!(fault, SockFault::ResetAfterRequest) {
                            let _ = s.set_linger(Some(Duration::ZERO));
                        }
                        drop(s);
                    } else {
                        let mut s = tokio::net::UnixStream::connect(&sock_path).await.map_err(|e| e.to_string())?;
                        let _ = s.write_all(&b).await;
                        drop(s);
                    }
                    tokio::time::sleep(Duration::from_millis(30)).await;
                }
                // the well-behaved request
                let req = http::Request::builder().method("POST").uri("/r50?q=50").header("x-id", "50").header("host", "server.test").body(ChunkBody::from_vecs(req_chunks(50))).unwrap();
                let resp = tokio::time::timeout(Duration::from_secs(10), async {
                    if let Some(a) = tcp_addr {
                        let s = tokio::net::TcpStream::connect(a).await.map_err(|e| format!("connect: {e}"))?;
                        let (mut sender, conn) = hyper::client::conn::http1::handshake(hyperdriver::bridge::io::TokioIo::new(s)).await.map_err(|e| e.to_string())?;
                        hyperdriver::bridge::rt::TokioExecutor::new().execute(async move { let _ = conn.await; });
                        let r = sender.send_request(req).await.map_err(|e| format!("send: {e}"))?;
                        collect_response(r).await
                    } else {
                        let s = tokio::net::UnixStream::connect(&sock_path).await.map_err(|e| format!("connect: {e}"))?;
                        let (mut sender, conn) = hyper::client::conn::http1::handshake(hyperdriver::bridge::io::TokioIo::new(s)).await.map_err(|e| e.to_string())?;
                        hyperdriver::bridge::rt::TokioExecutor::new().execute(async move { let _ = conn.await; });
                        let r = sender.send_request(req).await.map_err(|e| format!("send: {e}"))?;
                        collect_response(r).await
                    }
                })
                .await
                .map_err(|_| "the well-behaved request timed out".to_string())?;
                let alive = !handle.is_finished();
                handle.abort();
                let ended = match handle.await {
                    Ok(r) => format!("{r:?}"),
                    Err(e) if e.is_panic() => "panicked".to_string(),
                    Err(_) => "aborted".to_string(),
                };
                if !alive {
                    return Err(format!("the serving future ended ({ended}) after fault {fault:?}"));
                }
                match resp {
                    Ok(r) if r == expected_resp(50, "srv") => Ok(()),
                    other => Err(format!("the well-behaved request after fault {fault:?} saw {other:?} (server: {ended})")),
                }
            });
            n += 1;
            if let Err(e) = r {
                return Err(format!("{} acceptor, fault {fault:?}: {e}", if unix { "unix" } else { "tcp" }));
            }
        }
    }
    Ok(n)
}

fn replay(path: &str, tls: Option<&super::tlsfix::TlsFixture>) -> i32 {
    let text = std::fs::read_to_string(path).expect("replay file");
    let doc: serde_json::Value = serde_json::from_str(&text).expect("json");
    let rp = doc.get("replay").cloned().unwrap_or(doc);
    let idx = rp.get("fault_index").and_then(|x| x.as_u64()).unwrap_or(0) as usize;
    let thorough = rp.get("tier").and_then(|x| x.as_str()) == Some("thorough");
    let sched: Vec<usize> = rp.get("schedule").and_then(|x| x.as_array()).map(|a| a.iter().filter_map(|x| x.as_u64().map(|x| x as usize)).collect()).unwrap_or_default();
    let fl = faults(thorough, tls);
    let Some((acc, fault)) = fl.get(idx).cloned() else {
        println!("MACHINERY-ERROR fault index out of range");
        return 2;
    };
    let scn = Scn { acc, fault, good_in_flight: true };
    let a = run_one(&scn, &sched, tls);
    let b = run_one(&scn, &sched, tls);
    if a.outcome.trace != b.outcome.trace || a.outcome.schedule != b.outcome.schedule {
        println!("MACHINERY-ERROR replay diverged");
        return 2;
    }
    println!("fault: {} acceptor {:?}", scn.fault.label(), scn.acc);
    for l in &a.outcome.schedule {
        println!("  {l}");
    }
    println!("  trace: {}", a.outcome.trace);
    if a.outcome.viols.is_empty() {
        println!("replay holds");
        0
    } else {
        for (s, m) in &a.outcome.viols {
            println!("  {s}: {m}");
        }
        println!("VIOLATION property=C09 replay={path}");
        1
    }
}
