//! C12 — with TLS configured, https/wss traffic is never sent in the clear.
//! The real `TlsTransport` over a scripted inner transport; the harness owns the peer end of the
//! in-memory stream and records every raw byte it receives. Peers: a real rustls server with
//! matching / mismatching / untrusted / IP certificates and ALPN variants, and faulty peers (close,
//! plaintext answer, the real server flight truncated at every byte offset then close / stall).

use super::common::*;
use super::tlsfix;
use crate::det::Sched;
use crate::evidence::{Args, Run};
use hyperdriver::client::conn::TlsTransport;
use hyperdriver::stream::duplex::DuplexStream;
use serde_json::json;
use std::collections::BTreeSet;
use std::pin::Pin;
use std::sync::{Arc, Mutex};
use std::task::{Context, Poll};
use tokio::io::{AsyncRead, AsyncReadExt, AsyncWrite, AsyncWriteExt, ReadBuf};
use tower::Service;

const MARKER: &[u8] = b"GET /secret-marker-7f3a HTTP/1.1\r\nhost: x\r\n\r\n";

/// Inner transport: hands out the near end of one prepared in-memory stream.
#[derive(Clone)]
struct OneShot(Arc<Mutex<Option<DuplexStream>>>);
impl tower::Service<http::request::Parts> for OneShot {
    type Response = DuplexStream;
    type Error = std::io::Error;
    type Future = std::future::Ready<Result<DuplexStream, std::io::Error>>;
    fn poll_ready(&mut self, _: &mut Context<'_>) -> Poll<Result<(), Self::Error>> {
        Poll::Ready(Ok(()))
    }
    fn call(&mut self, _: http::request::Parts) -> Self::Future {
        std::future::ready(self.0.lock().unwrap().take().ok_or_else(|| std::io::Error::other("used")))
    }
}

/// Inner transport for request *sequences* through one pooled client: every call gets a fresh in-memory
/// stream; a peer task per connection records every raw byte and answers plaintext HTTP/1.1 requests with
/// `200` (keep-alive). A connection that starts with a TLS record is recorded and closed.
#[derive(Clone)]
struct ManyPlainPeers {
    exec: crate::det::Exec,
    /// (scheme of the request the connection was dialled for, raw bytes received)
    conns: Arc<Mutex<Vec<(String, Arc<Mutex<Vec<u8>>>)>>>,
}
impl tower::Service<http::request::Parts> for ManyPlainPeers {
    type Response = DuplexStream;
    type Error = std::io::Error;
    type Future = std::future::Ready<Result<DuplexStream, std::io::Error>>;
    fn poll_ready(&mut self, _: &mut Context<'_>) -> Poll<Result<(), Self::Error>> {
        Poll::Ready(Ok(()))
    }
    fn call(&mut self, parts: http::request::Parts) -> Self::Future {
        use hyper::rt::Executor;
        let (near, mut far) = DuplexStream::new(16384);
        let raw = Arc::new(Mutex::new(Vec::new()));
        self.conns.lock().unwrap().push((parts.uri.scheme_str().unwrap_or("").to_string(), raw.clone()));
        self.exec.execute(async move {
            let mut pending = Vec::new();
            let mut buf = [0u8; 1024];
            loop {
                let n = match far.read(&mut buf).await {
                    Ok(0) | Err(_) => break,
                    Ok(n) => n,
                };
                raw.lock().unwrap().extend_from_slice(&buf[..n]);
                pending.extend_from_slice(&buf[..n]);
                if pending.first() == Some(&0x16) {
                    break; // a TLS record: this peer does not speak TLS, it hangs up
                }
                while let Some(pos) = pending.windows(4).position(|w| w == b"\r\n\r\n") {
                    pending.drain(..pos + 4);
                    if far.write_all(b"HTTP/1.1 200 OK\r\ncontent-length: 0\r\n\r\n").await.is_err() {
                        return;
                    }
                }
            }
        });
        std::future::ready(Ok(near))
    }
}

/// Two requests in a row through ONE pooled client with a TLS configuration, to the same host and port, the
/// first with a plaintext scheme, the second with a TLS scheme: the second request's bytes must not travel
/// on the (idle, pooled) plaintext connection of the first. Returns (runs, violations).
pub fn scheme_pairs(fx: &Fx) -> (u64, Vec<(String, String, serde_json::Value)>) {
    let mut n = 0;
    let mut out = vec![];
    for (first, second) in [("http", "https"), ("ws", "wss"), ("http", "wss"), ("ws", "https")] {
        for (authority, tls_first) in [("example.com:8443", false), ("example.com:443", false), ("example.com:80", false), ("[::1]:8443", false), ("example.com:8443", true), ("example.com:443", true)] {
            n += 1;
            let mut s = Sched::new(vec![]);
            let conns: Arc<Mutex<Vec<(String, Arc<Mutex<Vec<u8>>>)>>> = Default::default();
            let transport = ManyPlainPeers { exec: s.exec.clone(), conns: conns.clone() };
            let cfg = (*fx.client_plain).clone();
            // the builder's calls in both orders: the TLS configuration given before or after the transport
            let built = std::panic::catch_unwind(std::panic::AssertUnwindSafe(|| {
                if tls_first {
                    hyperdriver::Client::builder().with_auto_http().with_tls(cfg).with_transport(transport).with_default_pool().without_timeout().build()
                } else {
                    hyperdriver::Client::builder().with_auto_http().with_transport(transport).with_default_pool().without_timeout().with_tls(cfg).build()
                }
            }));
            let Ok(client) = built else {
                out.push((format!("scheme-pair panic {first}->{second}"), "building the client panicked".into(), json!({"engine":"c12-pairs"})));
                continue;
            };
            let results: Arc<Mutex<Vec<String>>> = Default::default();
            let res2 = results.clone();
            let (u1, u2) = (format!("{first}://{authority}/first-plain"), format!("{second}://{authority}/second-secret-9c1d"));
            s.spawn("client", async move {
                let mut client = client;
                for u in [u1, u2] {
                    let req = http::Request::get(u).body(hyperdriver::Body::empty()).unwrap();
                    let r = client.request(req).await;
                    let text = match r {
                        Ok(resp) => {
                            let st = resp.status();
                            // read the body to its end so that the connection goes back to the pool
                            let _ = http_body_util::BodyExt::collect(resp.into_body()).await;
                            format!("ok {st}")
                        }
                        Err(e) => format!("err {e}"),
                    };
                    res2.lock().unwrap().push(text);
                    yield_now().await;
                    yield_now().await;
                }
            });
            s.run();
            let panics = s.panics();
            s.teardown();
            for (t, p) in panics {
                out.push((format!("scheme-pair panic {first}->{second}"), format!("task {t} panicked: {p}"), json!({"engine":"c12-pairs"})));
            }
            let conns = conns.lock().unwrap();
            for (i, (scheme, raw)) in conns.iter().enumerate() {
                let raw = raw.lock().unwrap();
                let clear = String::from_utf8_lossy(&raw);
                if clear.contains("second-secret-9c1d") {
                    out.push((
                        format!("plaintext-on-pooled-connection {first}->{second}"),
                        format!("after {first}://{authority}/, the request {second}://{authority}/second-secret-9c1d was sent in the clear on connection #{i} (dialled for scheme {scheme}): {:?}; client results {:?}", clear.lines().next().unwrap_or(""), results.lock().unwrap()),
                        json!({"engine":"c12-pairs","first":first,"second":second,"authority":authority}),
                    ));
                }
                let tlsish = scheme.eq_ignore_ascii_case("https") || scheme.eq_ignore_ascii_case("wss");
                if tlsish && !raw.is_empty() && raw[0] != 0x16 {
                    out.push((format!("first-byte-not-tls-on-pooled {first}->{second}"), format!("connection #{i} dialled for {scheme}://{authority} starts with byte {:#x}", raw[0]), json!({"engine":"c12-pairs","first":first,"second":second,"authority":authority})));
                }
            }
            if results.lock().unwrap().first().map(|r| r.starts_with("ok")) != Some(true) {
                out.push((format!("scheme-pair first-request-failed {first}"), format!("the plaintext request {first}://{authority}/ did not succeed: {:?}", results.lock().unwrap()), json!({"engine":"c12-pairs"})));
            }
        }
    }
    (n, out)
}

/// Peer-side tap: records what the client sent (raw), and limits what the peer may send back.
struct Tap {
    inner: DuplexStream,
    raw_in: Arc<Mutex<Vec<u8>>>,
    /// bytes the peer may still write before the stream is cut (None = unlimited)
    write_budget: Option<usize>,
    cut_is_stall: bool,
    stall: Gate,
    sent: Arc<Mutex<usize>>,
    corrupt: Option<(usize, u8)>,
    frag: usize,
    yield_next: bool,
}
impl AsyncRead for Tap {
    fn poll_read(mut self: Pin<&mut Self>, cx: &mut Context<'_>, buf: &mut ReadBuf<'_>) -> Poll<std::io::Result<()>> {
        let before = buf.filled().len();
        let r = Pin::new(&mut self.inner).poll_read(cx, buf);
        if let Poll::Ready(Ok(())) = &r {
            self.raw_in.lock().unwrap().extend_from_slice(&buf.filled()[before..]);
        }
        r
    }
}
impl AsyncWrite for Tap {
    fn poll_write(mut self: Pin<&mut Self>, cx: &mut Context<'_>, data: &[u8]) -> Poll<std::io::Result<usize>> {
        // fragmenting peer: after each piece let the other side run before the next one
        if self.frag > 0 && self.yield_next {
            self.yield_next = false;
            cx.waker().wake_by_ref();
            return Poll::Pending;
        }
        let data = if self.frag > 0 { &data[..self.frag.min(data.len())] } else { data };
        // corrupting peer: one byte of the output stream is altered
        let pos = *self.sent.lock().unwrap();
        let altered: Vec<u8>;
        let data = match self.corrupt {
            Some((at, mask)) if at >= pos && at < pos + data.len() => {
                altered = {
                    let mut d = data.to_vec();
                    d[at - pos] ^= mask;
                    d
                };
                &altered[..]
            }
            _ => data,
        };
        if self.frag > 0 {
            self.yield_next = true;
        }
        if let Some(b) = self.write_budget {
            if b == 0 {
                if self.cut_is_stall {
                    // hold the connection open and silent forever
                    let mut w = self.stall.wait();
                    return match Pin::new(&mut w).poll(cx) {
                        Poll::Ready(()) => Poll::Ready(Err(std::io::ErrorKind::BrokenPipe.into())),
                        Poll::Pending => Poll::Pending,
                    };
                }
                return Poll::Ready(Err(std::io::ErrorKind::BrokenPipe.into()));
            }
            let n = b.min(data.len());
            let r = Pin::new(&mut self.inner).poll_write(cx, &data[..n]);
            if let Poll::Ready(Ok(k)) = &r {
                self.write_budget = Some(b - k);
                *self.sent.lock().unwrap() += k;
            }
            return r;
        }
        let r = Pin::new(&mut self.inner).poll_write(cx, data);
        if let Poll::Ready(Ok(k)) = &r {
            *self.sent.lock().unwrap() += k;
        }
        r
    }
    fn poll_flush(mut self: Pin<&mut Self>, cx: &mut Context<'_>) -> Poll<std::io::Result<()>> {
        Pin::new(&mut self.inner).poll_flush(cx)
    }
    fn poll_shutdown(mut self: Pin<&mut Self>, cx: &mut Context<'_>) -> Poll<std::io::Result<()>> {
        Pin::new(&mut self.inner).poll_shutdown(cx)
    }
}
use std::future::Future;

#[derive(Clone, Debug, PartialEq, Eq)]
pub enum Peer {
    /// real rustls server: certificate fixture name, server ALPN list
    Tls { cert: &'static str, alpn: &'static [&'static [u8]], truncate: Option<usize>, stall: bool },
    CloseAtOnce,
    PlaintextReply,
    /// never answers, keeps the stream open
    Silent,
}

#[derive(Clone, Debug)]
pub struct Case {
    pub scheme: &'static str,
    pub host: &'static str,
    pub port: Option<u16>,
    pub peer: Peer,
    pub client_alpn: bool,
    /// send a real request through `Client` (builder, pool, layers, HTTP/1.1 connection) instead of
    /// writing marker bytes to the stream the transport returns
    pub via_client: bool,
    /// how the bytes travel: a corrupted byte of the peer's output, the peer's output in small
    /// fragments with the client scheduled in between, a small buffer for the client's own writes
    pub io: IoShape,
}

#[derive(Clone, Debug, Default, PartialEq, Eq)]
pub struct IoShape {
    /// (offset in the peer's output, xor mask)
    pub corrupt: Option<(usize, u8)>,
    /// the peer's writes are cut into pieces of this many bytes, yielding after each (0 = whole)
    pub frag: usize,
    /// capacity of the in-memory stream (0 = 16 KiB)
    pub bufsize: usize,
    /// (not an IO shape, kept here so that the many case constructors stay unchanged) a Host header
    /// supplied by the caller that names another host than the URI: the server name offered and the
    /// certificate name checked must still be the URI host
    pub host_header: Option<&'static str>,
}

impl Case {
    fn uri(&self) -> String {
        match self.port {
            Some(p) => format!("{}://{}:{p}/secret-marker-7f3a", self.scheme, self.host),
            None => format!("{}://{}/secret-marker-7f3a", self.scheme, self.host),
        }
    }
}

#[derive(Debug, Clone, Default)]
pub struct Seen {
    pub client: Option<Result<String, String>>,
    pub raw: Vec<u8>,
    pub sni: Option<Option<String>>,
    pub peer_handshake: Option<Result<(), String>>,
    pub peer_app: Vec<u8>,
    pub peer_sent: usize,
    pub peer_sent_at_connect: Option<usize>,
    pub client_alpn_seen: Option<String>,
    pub panics: Vec<String>,
    pub hung: bool,
}

pub struct Fx {
    pub client_plain: Arc<rustls::ClientConfig>,
    pub client_alpn: Arc<rustls::ClientConfig>,
    pub servers: std::collections::BTreeMap<(String, usize), Arc<rustls::ServerConfig>>,
}

const ALPNS: [&[&[u8]]; 4] = [&[], &[b"h2"], &[b"http/1.1"], &[b"h2", b"http/1.1"]];
const CERTS: [&str; 4] = ["examplecom", "iphost", "othername", "rogue-examplecom"];

impl Fx {
    pub fn load() -> Result<Fx, String> {
        let mut servers = std::collections::BTreeMap::new();
        for c in CERTS {
            for (i, a) in ALPNS.iter().enumerate() {
                servers.insert((c.to_string(), i), tlsfix::server_config(c, a)?);
            }
        }
        Ok(Fx { client_plain: Arc::new(tlsfix::client_config(&[])?), client_alpn: Arc::new(tlsfix::client_config(&[b"h2", b"http/1.1"])?), servers })
    }
}

pub fn run_case(c: &Case, fx: &Fx) -> Seen {
    run_case_sched(c, fx, &[]).0
}

/// The same under a schedule prefix; also returns the scheduling points met and a replay error, if any.
pub fn run_case_sched(c: &Case, fx: &Fx, schedule: &[usize]) -> (Seen, Vec<crate::det::Point>, Option<String>) {
    POINTS.with(|p| *p.borrow_mut() = (Vec::new(), None));
    let seen = run_case_inner(c, fx, schedule);
    let (points, err) = POINTS.with(|p| std::mem::take(&mut *p.borrow_mut()));
    (seen, points, err)
}

thread_local! {
    static POINTS: std::cell::RefCell<(Vec<crate::det::Point>, Option<String>)> = const { std::cell::RefCell::new((Vec::new(), None)) };
}

fn run_case_inner(c: &Case, fx: &Fx, schedule: &[usize]) -> Seen {
    let mut s = Sched::new(schedule.to_vec());
    let (near, far) = DuplexStream::new(if c.io.bufsize == 0 { 16384 } else { c.io.bufsize });
    let seen = Arc::new(Mutex::new(Seen::default()));
    let raw_in = Arc::new(Mutex::new(Vec::new()));
    let sent = Arc::new(Mutex::new(0usize));
    let stall = Gate::new();
    // ---- client: the real TlsTransport with a TLS configuration
    let cfg = if c.client_alpn { fx.client_alpn.clone() } else { fx.client_plain.clone() };
    if c.via_client {
        let seen_c = seen.clone();
        let uri = c.uri();
        let host_header = c.io.host_header;
        let cfgc = (*cfg).clone();
        let built = std::panic::catch_unwind(std::panic::AssertUnwindSafe(|| {
            hyperdriver::Client::builder().with_auto_http().with_transport(OneShot(Arc::new(Mutex::new(Some(near))))).with_default_pool().without_timeout().with_tls(cfgc).build()
        }));
        match built {
            Err(p) => seen.lock().unwrap().panics.push(crate::det::panic_text(p)),
            Ok(mut client) => {
                s.spawn("client", async move {
                    let mut rb = http::Request::get(uri).header("x-marker", "secret-marker-7f3a");
                    if let Some(h) = host_header {
                        rb = rb.header("host", h);
                    }
                    let req = rb.body(hyperdriver::Body::empty()).unwrap();
                    let r = client.request(req).await;
                    seen_c.lock().unwrap().client = Some(match r {
                        Ok(resp) => Ok(format!("stream; response {}", resp.status())),
                        Err(e) => Err(e.to_string()),
                    });
                });
            }
        }
        return finish_case(c, s, seen, raw_in, sent, stall, far, fx);
    }
    let mut transport = TlsTransport::new(OneShot(Arc::new(Mutex::new(Some(near))))).with_tls(cfg);
    let mut rb = http::Request::get(c.uri());
    if let Some(h) = c.io.host_header {
        rb = rb.header("host", h);
    }
    let parts = rb.body(()).unwrap().into_parts().0;
    let seen_c = seen.clone();
    let sent_c = sent.clone();
    let built = std::panic::catch_unwind(std::panic::AssertUnwindSafe(|| transport.call(parts)));
    match built {
        Err(p) => seen.lock().unwrap().panics.push(crate::det::panic_text(p)),
        Ok(fut) => {
            s.spawn("client", async move {
                match fut.await {
                    Err(e) => seen_c.lock().unwrap().client = Some(Err(e.to_string())),
                    Ok(mut stream) => {
                        use hyperdriver::info::HasTlsConnectionInfo;
                        let alpn = stream.tls_info().map(|t| format!("{:?}", t.alpn));
                        seen_c.lock().unwrap().client_alpn_seen = alpn;
                        let sent_now = *sent_c.lock().unwrap();
                        seen_c.lock().unwrap().peer_sent_at_connect = Some(sent_now);
                        // application data: only ever written to the stream the transport returned
                        let w = async {
                            stream.write_all(MARKER).await?;
                            stream.flush().await?;
                            let mut buf = [0u8; 64];
                            let n = stream.read(&mut buf).await?;
                            Ok::<_, std::io::Error>(String::from_utf8_lossy(&buf[..n]).to_string())
                        }
                        .await;
                        seen_c.lock().unwrap().client = Some(Ok(match w {
                            Ok(reply) => format!("stream; reply {reply:?}"),
                            Err(e) => format!("stream; io error {e}"),
                        }));
                    }
                }
            });
        }
    }
    finish_case(c, s, seen, raw_in, sent, stall, far, fx)
}

#[allow(clippy::too_many_arguments)]
fn finish_case(c: &Case, mut s: Sched, seen: Arc<Mutex<Seen>>, raw_in: Arc<Mutex<Vec<u8>>>, sent: Arc<Mutex<usize>>, stall: Gate, far: DuplexStream, fx: &Fx) -> Seen {
    // ---- peer
    let seen_p = seen.clone();
    match c.peer.clone() {
        Peer::Tls { cert, alpn, truncate, stall: st } => {
            let ai = ALPNS.iter().position(|a| *a == alpn).unwrap_or(0);
            let server_cfg = fx.servers[&(cert.to_string(), ai)].clone();
            let tap = Tap { inner: far, raw_in: raw_in.clone(), write_budget: truncate, cut_is_stall: st, stall: stall.clone(), sent: sent.clone(), corrupt: c.io.corrupt, frag: c.io.frag, yield_next: false };
            s.spawn("peer", async move {
                let acceptor = tokio_rustls::TlsAcceptor::from(server_cfg);
                match acceptor.accept(tap).await {
                    Err(e) => seen_p.lock().unwrap().peer_handshake = Some(Err(e.to_string())),
                    Ok(mut tls) => {
                        {
                            let (_, conn) = tls.get_ref();
                            let mut sp = seen_p.lock().unwrap();
                            sp.sni = Some(conn.server_name().map(|s| s.to_string()));
                            sp.peer_handshake = Some(Ok(()));
                        }
                        let mut buf = vec![0u8; 256];
                        let mut got = vec![];
                        while !got.ends_with(b"\r\n\r\n") {
                            match tls.read(&mut buf).await {
                                Ok(0) | Err(_) => break,
                                Ok(n) => got.extend_from_slice(&buf[..n]),
                            }
                        }
                        seen_p.lock().unwrap().peer_app = got;
                        let _ = tls.write_all(b"HTTP/1.1 200 OK\r\ncontent-length: 2\r\n\r\nok").await;
                        let _ = tls.flush().await;
                    }
                }
            });
        }
        Peer::CloseAtOnce => {
            let mut tap = Tap { inner: far, raw_in: raw_in.clone(), write_budget: None, cut_is_stall: false, stall: stall.clone(), sent: sent.clone(), corrupt: c.io.corrupt, frag: c.io.frag, yield_next: false };
            s.spawn("peer", async move {
                // read whatever is already there (to record it), then hang up
                let mut buf = [0u8; 1024];
                let _ = crate::det::Sched::new; // (no-op; keeps the import used)
                let _ = futures_util::future::poll_fn(|cx| {
                    let mut rb = ReadBuf::new(&mut buf);
                    let _ = Pin::new(&mut tap).poll_read(cx, &mut rb);
                    Poll::Ready(())
                })
                .await;
                drop(tap);
            });
        }
        Peer::PlaintextReply | Peer::Silent => {
            let reply = c.peer == Peer::PlaintextReply;
            let mut tap = Tap { inner: far, raw_in: raw_in.clone(), write_budget: None, cut_is_stall: false, stall: stall.clone(), sent: sent.clone(), corrupt: c.io.corrupt, frag: c.io.frag, yield_next: false };
            let stall2 = stall.clone();
            s.spawn("peer", async move {
                if reply {
                    let _ = tap.write_all(b"HTTP/1.1 200 OK\r\ncontent-length: 2\r\n\r\nok").await;
                }
                let mut buf = [0u8; 1024];
                loop {
                    tokio::select! {
                        biased;
                        r = tap.read(&mut buf) => match r { Ok(0) | Err(_) => break, Ok(_) => {} },
                        _ = stall2.wait() => break,
                    }
                }
            });
        }
    }
    s.horizon = if c.io.frag > 0 || c.io.bufsize > 0 { 200_000 } else { 4000 };
    s.run();
    let mut out = seen.lock().unwrap().clone();
    out.panics.extend(s.panics().into_iter().map(|(t, p)| format!("{t}: {p}")));
    out.hung = s.tasks.iter().any(|t| t.name == "client" && !t.done);
    out.raw = raw_in.lock().unwrap().clone();
    out.peer_sent = *sent.lock().unwrap();
    stall.open();
    POINTS.with(|p| *p.borrow_mut() = (s.points.clone(), s.replay_error.clone()));
    s.teardown();
    out
}

fn cert_names(cert: &str) -> (&'static [&'static str], bool) {
    // (names the certificate is valid for, trusted)
    match cert {
        "examplecom" => (&["example.com", "example.org"], true),
        "iphost" => (&["localhost", "127.0.0.1", "::1"], true),
        "othername" => (&["other.test"], true),
        _ => (&["example.com"], false),
    }
}

/// Reference verdict from the statement.
pub fn check(c: &Case, o: &Seen) -> Vec<(String, String)> {
    let mut v = vec![];
    for p in &o.panics {
        v.push(("panic".into(), format!("panic: {p}")));
    }
    let secure = c.scheme.eq_ignore_ascii_case("https") || c.scheme.eq_ignore_ascii_case("wss");
    let needle: &[u8] = b"secret-marker-7f3a";
    let contains_marker = o.raw.windows(needle.len()).any(|w| w == needle);
    let got_stream = matches!(&o.client, Some(Ok(_)));
    if secure {
        if let Some(&b) = o.raw.first() {
            if b != 0x16 {
                v.push(("first-byte-not-tls".into(), format!("the first byte on the wire for a {} request is {b:#04x}, not a TLS handshake record", c.scheme)));
            }
        }
        if contains_marker {
            v.push(("plaintext-on-wire".into(), format!("application bytes of a {} request appeared on the wire in the clear", c.scheme)));
        }
        // the host of the URI: without user information, without the brackets of an IPv6 literal
        let bare = c.host.rsplit('@').next().unwrap_or(c.host).trim_start_matches('[').trim_end_matches(']');
        let is_ip = bare.parse::<std::net::IpAddr>().is_ok();
        let should_succeed = match &c.peer {
            // a corrupted byte that the handshake does not authenticate (a record-header version
            // byte) may be harmless: then the stream is acceptable exactly when the peer's own
            // handshake completed, which proves the client verified the untampered transcript
            Peer::Tls { .. } if c.io.corrupt.is_some() => got_stream && matches!(o.peer_handshake, Some(Ok(()))),
            Peer::Tls { cert, truncate: None, .. } => {
                let (names, trusted) = cert_names(cert);
                trusted && names.iter().any(|n| n.eq_ignore_ascii_case(bare))
            }
            _ => false,
        };
        if got_stream && !should_succeed {
            v.push(("stream-without-verified-handshake".into(), format!("the caller was given a usable stream although the peer ({:?}) cannot have presented a trusted certificate for {bare}", c.peer)));
        }
        if !got_stream && should_succeed && !matches!(&c.peer, Peer::Tls { stall: true, .. }) && c.io.corrupt.is_none() {
            v.push(("valid-handshake-rejected".into(), format!("handshake with a trusted certificate valid for {bare} failed: client {:?}, peer {:?}", o.client, o.peer_handshake)));
        }
        if got_stream {
            match (&o.sni, is_ip) {
                (Some(None), true) => {}
                (Some(Some(s)), false) if s.eq_ignore_ascii_case(bare) => {}
                (None, _) => v.push(("stream-without-handshake".into(), "the caller got a stream but the peer never completed a handshake".into())),
                (sni, _) => v.push(("wrong-server-name".into(), format!("server name offered {sni:?} is not the URI host {bare}"))),
            }
            if c.via_client {
                let text = String::from_utf8_lossy(&o.peer_app).to_string();
                if !text.starts_with("GET /secret-marker-7f3a HTTP/1.1\r\n") || !text.to_ascii_lowercase().contains("x-marker: secret-marker-7f3a") {
                    v.push(("app-data-altered".into(), format!("the peer decrypted {text:?}")));
                }
            } else if o.peer_app != MARKER {
                v.push(("app-data-altered".into(), format!("the peer decrypted {:?}", String::from_utf8_lossy(&o.peer_app))));
            }
        }
        // an altered length field makes the client wait for bytes the (live, waiting) peer never sends: that is a silent peer, not a lost result
        if o.hung && !matches!(&c.peer, Peer::Silent | Peer::Tls { stall: true, .. }) && !(matches!(&c.peer, Peer::PlaintextReply)) && c.io.corrupt.is_none() {
            v.push(("no-result".into(), format!("the connect attempt neither succeeded nor failed (peer {:?})", c.peer)));
        }
    } else {
        // other schemes are not wrapped
        if let Some(&b) = o.raw.first() {
            if b == 0x16 {
                v.push(("plain-scheme-wrapped".into(), format!("a {} request was wrapped in TLS", c.scheme)));
            }
        }
        if got_stream && !o.raw.is_empty() && !contains_marker {
            v.push(("plain-bytes-altered".into(), "plaintext request bytes did not arrive unchanged".into()));
        }
        if !got_stream && !o.hung && !c.via_client {
            v.push(("plain-connect-failed".into(), format!("a {} request could not get a plain stream: {:?}", c.scheme, o.client)));
        }
    }
    v
}

pub fn cases(thorough: bool, flight_len: usize, flight_len_ip: usize) -> Vec<Case> {
    let mut v = vec![];
    // URI schemes are case-insensitive (RFC 3986 §3.1): the upper- and mixed-case spellings are the same schemes
    let schemes = ["http", "https", "ws", "wss", "ftp", "HTTPS", "WSS", "Wss", "HTTP"];
    let hosts = ["example.com", "EXAMPLE.com", "localhost", "127.0.0.1", "[::1]", "a_b.test", "exa$mple.com", "-", "other.test", "a..b", "user:pw@example.com", "u@[::1]"];
    let ports = [None, Some(443u16), Some(8443)];
    for scheme in schemes {
        for host in hosts {
            if format!("{scheme}://{host}/").parse::<http::Uri>().is_err() {
                continue;
            }
            for port in ports {
                for cert in CERTS {
                    for (ai, alpn) in ALPNS.iter().enumerate() {
                        for client_alpn in [false, true] {
                            // ALPN does not interact with naming: cross it fully only for the matching pairs
                            let matching = (cert == "examplecom" && host.eq_ignore_ascii_case("example.com")) || (cert == "iphost" && matches!(host, "localhost" | "127.0.0.1" | "[::1]"));
                            if !matching && !(ai == 3 && client_alpn) && !thorough {
                                continue;
                            }
                            if port.is_some() && !(ai == 3 && client_alpn) {
                                continue;
                            }
                            v.push(Case { scheme, host, port, peer: Peer::Tls { cert, alpn, truncate: None, stall: false }, client_alpn, via_client: false, io: IoShape::default() });
                        }
                    }
                }
                for peer in [Peer::CloseAtOnce, Peer::PlaintextReply, Peer::Silent] {
                    v.push(Case { scheme, host, port, peer, client_alpn: true, via_client: false, io: IoShape::default() });
                }
            }
        }
    }
    // the same through the complete client (builder, pool, layers, HTTP/1.1 connection)
    for (scheme, host, cert) in [("https", "example.com", "examplecom"), ("https", "EXAMPLE.com", "examplecom"), ("wss", "example.com", "examplecom"), ("https", "[::1]", "iphost"), ("https", "127.0.0.1", "iphost"),
        ("https", "example.com", "othername"), ("https", "example.com", "rogue-examplecom"), ("https", "other.test", "examplecom"), ("http", "example.com", "examplecom"), ("https", "a_b.test", "examplecom"), ("https", "exa$mple.com", "examplecom")] {
        if format!("{scheme}://{host}/").parse::<http::Uri>().is_err() {
            continue;
        }
        for port in [None, Some(8443u16)] {
            v.push(Case { scheme, host, port, peer: Peer::Tls { cert, alpn: ALPNS[0], truncate: None, stall: false }, client_alpn: false, via_client: true, io: IoShape::default() });
        }
        v.push(Case { scheme, host, port: None, peer: Peer::PlaintextReply, client_alpn: false, via_client: true, io: IoShape::default() });
        v.push(Case { scheme, host, port: None, peer: Peer::CloseAtOnce, client_alpn: false, via_client: true, io: IoShape::default() });
    }
    // the real server flight truncated at every byte offset, then close / then stall
    let step = if thorough { 1 } else { 3 };
    for n in (0..flight_len).step_by(step) {
        for stall in [false, true] {
            v.push(Case { scheme: "https", host: "example.com", port: None, peer: Peer::Tls { cert: "examplecom", alpn: ALPNS[3], truncate: Some(n), stall }, client_alpn: true, via_client: false, io: IoShape::default() });
        }
    }
    // a caller-supplied Host header naming another host than the URI (virtual hosting, proxies): the
    // TLS server name and the certificate check still follow the URI host
    for (scheme, host, hdr, cert) in [
        ("https", "example.com", "other.test", "othername"),
        ("https", "example.com", "other.test", "examplecom"),
        ("https", "other.test", "example.com", "examplecom"),
        ("https", "other.test", "example.com:443", "othername"),
        ("wss", "example.com", "other.test", "othername"),
        ("wss", "[::1]", "example.com", "iphost"),
        ("wss", "[::1]", "example.com", "examplecom"),
        ("https", "127.0.0.1", "localhost", "iphost"),
        ("http", "example.com", "other.test", "othername"),
    ] {
        for via_client in [false, true] {
            v.push(Case { scheme, host, port: None, peer: Peer::Tls { cert, alpn: ALPNS[0], truncate: None, stall: false }, client_alpn: false, via_client, io: IoShape { host_header: Some(hdr), ..Default::default() } });
        }
    }
    // one byte of the server's flight altered (quick: lowest bit; thorough: also the highest bit)
    for n in 0..flight_len {
        for mask in [0x01u8, 0x80] {
            if mask == 0x80 && !thorough {
                continue;
            }
            v.push(Case { scheme: "https", host: "example.com", port: None, peer: Peer::Tls { cert: "examplecom", alpn: ALPNS[3], truncate: None, stall: false }, client_alpn: true, via_client: false, io: IoShape { corrupt: Some((n, mask)), ..Default::default() } });
        }
    }
    // the handshake bytes fragmented: the peer's output in pieces of `frag` bytes with the client
    // scheduled after each piece, and a small stream buffer so the client's own writes go out in pieces
    for (scheme, host, cert) in [("https", "example.com", "examplecom"), ("wss", "[::1]", "iphost"), ("https", "example.com", "othername"), ("https", "example.com", "rogue-examplecom"), ("https", "other.test", "examplecom")] {
        for frag in [0usize, 1, 2, 5, 64] {
            for bufsize in [0usize, 64, 100] {
                if frag == 0 && bufsize == 0 {
                    continue;
                }
                for via_client in [false, true] {
                    v.push(Case { scheme, host, port: None, peer: Peer::Tls { cert, alpn: ALPNS[if via_client { 0 } else { 3 }], truncate: None, stall: false }, client_alpn: !via_client, via_client, io: IoShape { frag, bufsize, ..Default::default() } });
                }
            }
        }
    }
    // fragmented and truncated
    for n in (0..flight_len).step_by(if thorough { 1 } else { 5 }) {
        v.push(Case { scheme: "https", host: "example.com", port: None, peer: Peer::Tls { cert: "examplecom", alpn: ALPNS[3], truncate: Some(n), stall: false }, client_alpn: true, via_client: false, io: IoShape { frag: 3, bufsize: 32, ..Default::default() } });
    }
    for n in (0..flight_len_ip).step_by(if thorough { 7 } else { 41 }) {
        v.push(Case { scheme: "wss", host: "[::1]", port: Some(8443), peer: Peer::Tls { cert: "iphost", alpn: ALPNS[0], truncate: Some(n), stall: false }, client_alpn: false, via_client: false, io: IoShape::default() });
    }
    v
}

fn peer_json(p: &Peer) -> serde_json::Value {
    match p {
        Peer::Tls { cert, alpn, truncate, stall } => json!({"kind":"tls","cert":cert,"alpn_index":ALPNS.iter().position(|a| a == alpn).unwrap_or(0),"truncate":truncate,"stall":stall}),
        Peer::CloseAtOnce => json!({"kind":"close"}),
        Peer::PlaintextReply => json!({"kind":"plaintext"}),
        Peer::Silent => json!({"kind":"silent"}),
    }
}

fn leak(s: &str) -> &'static str {
    Box::leak(s.to_string().into_boxed_str())
}

fn replay(path: &str, fx: &Fx) -> i32 {
    let doc: serde_json::Value = serde_json::from_str(&std::fs::read_to_string(path).expect("replay file")).expect("json");
    let rp = doc.get("replay").cloned().unwrap_or(doc);
    if rp.get("engine").and_then(|x| x.as_str()) == Some("c12-pairs") {
        std::panic::set_hook(Box::new(|_| {}));
        let (_, viols) = scheme_pairs(fx);
        let _ = std::panic::take_hook();
        for (sig, what, _) in &viols {
            println!("  {sig}: {what}");
        }
        return if viols.is_empty() {
            println!("replay holds");
            0
        } else {
            println!("VIOLATION property=C12 replay={path}");
            1
        };
    }
    let pj = rp.get("peer_spec").cloned().unwrap_or_default();
    let peer = match pj.get("kind").and_then(|x| x.as_str()) {
        Some("tls") => Peer::Tls {
            cert: CERTS.iter().copied().find(|c| Some(*c) == pj.get("cert").and_then(|x| x.as_str())).unwrap_or("examplecom"),
            alpn: ALPNS[pj.get("alpn_index").and_then(|x| x.as_u64()).unwrap_or(0) as usize % 4],
            truncate: pj.get("truncate").and_then(|x| x.as_u64()).map(|x| x as usize),
            stall: pj.get("stall").and_then(|x| x.as_bool()).unwrap_or(false),
        },
        Some("plaintext") => Peer::PlaintextReply,
        Some("silent") => Peer::Silent,
        _ => Peer::CloseAtOnce,
    };
    let c = Case {
        scheme: leak(rp.get("scheme").and_then(|x| x.as_str()).unwrap_or("https")),
        host: leak(rp.get("host").and_then(|x| x.as_str()).unwrap_or("example.com")),
        port: rp.get("port").and_then(|x| x.as_u64()).map(|p| p as u16),
        peer,
        client_alpn: rp.get("client_alpn").and_then(|x| x.as_bool()).unwrap_or(true),
        via_client: rp.get("via_client").and_then(|x| x.as_bool()).unwrap_or(false),
        io: {
            let io = rp.get("io").cloned().unwrap_or_default();
            IoShape {
                corrupt: io.get("corrupt").and_then(|x| x.as_array()).and_then(|a| Some((a.first()?.as_u64()? as usize, a.get(1)?.as_u64()? as u8))),
                frag: io.get("frag").and_then(|x| x.as_u64()).unwrap_or(0) as usize,
                bufsize: io.get("bufsize").and_then(|x| x.as_u64()).unwrap_or(0) as usize,
                host_header: io.get("host_header").and_then(|x| x.as_str()).map(leak),
            }
        },
    };
    std::panic::set_hook(Box::new(|_| {}));
    let o = run_case(&c, fx);
    let _ = std::panic::take_hook();
    let v = check(&c, &o);
    println!("uri {} peer {:?}: client {:?}, first wire byte {:?}, sni {:?}, peer handshake {:?}", c.uri(), c.peer, o.client, o.raw.first(), o.sni, o.peer_handshake);
    if v.is_empty() {
        println!("replay holds");
        0
    } else {
        for (s, m) in &v {
            println!("  {s}: {m}");
        }
        println!("VIOLATION property=C12 replay={path}");
        1
    }
}

pub fn run(args: &Args) -> i32 {
    let mut run = Run::new("C12", args.tier, "fault_enumeration");
    let fx = match Fx::load() {
        Ok(f) => f,
        Err(e) => {
            println!("MACHINERY-ERROR tls fixtures: {e}");
            return 2;
        }
    };
    if let Some(p) = &args.replay {
        return replay(p, &fx);
    }
    std::panic::set_hook(Box::new(|_| {}));
    // measure the server's flight once (how many bytes the peer sends before the client's finished)
    let probe = run_case(&Case { scheme: "https", host: "example.com", port: None, peer: Peer::Tls { cert: "examplecom", alpn: ALPNS[3], truncate: None, stall: false }, client_alpn: true, via_client: false, io: IoShape::default() }, &fx);
    // the server's handshake flight: what the peer had sent when the client's handshake completed
    // (if the reference handshake itself fails the grid below reports why; use a nominal length then)
    // ECDSA signatures are randomised and their DER length varies by a byte or two between
    // handshakes, so the last few offsets of the flight are left out (a cut there may fall after the
    // end of another handshake's flight, which is then legitimately complete).
    let flight_len = probe.peer_sent_at_connect.unwrap_or(1000).saturating_sub(8);
    let probe_ip = run_case(&Case { scheme: "wss", host: "[::1]", port: Some(8443), peer: Peer::Tls { cert: "iphost", alpn: ALPNS[0], truncate: None, stall: false }, client_alpn: false, via_client: false, io: IoShape::default() }, &fx);
    let flight_len_ip = probe_ip.peer_sent_at_connect.map(|n| n.saturating_sub(8)).unwrap_or(flight_len);
    let cs = cases(args.tier.is_thorough(), flight_len, flight_len_ip);
    // request sequences through one pooled client: plaintext scheme first, TLS scheme second, same host and port
    let (pair_runs, pair_viols) = scheme_pairs(&fx);
    run.cov("scheme_pair_sequences_through_one_pooled_client", pair_runs);
    for (sig, what, rp) in pair_viols {
        run.violation(sig, what, rp);
    }
    let threads = crate::evidence::n_threads();
    let results = crate::evidence::par_map(cs.len(), threads, |i| {
        let c = cs[i].clone();
        let _g = crate::evidence::watchdog::enter(move || json!({"engine":"schedmc-c12","uri":c.uri(),"scheme":c.scheme,"host":c.host,"port":c.port,"peer":format!("{:?}", c.peer),"peer_spec":peer_json(&c.peer),"client_alpn":c.client_alpn,"via_client":c.via_client,"io":{"corrupt":c.io.corrupt.map(|(a,m)| vec![a as u64, m as u64]),"frag":c.io.frag,"bufsize":c.io.bufsize,"host_header":c.io.host_header}}));
        let o = run_case(&cs[i], &fx);
        let mut v = check(&cs[i], &o);
        if i % 8 == 5 {
            let o2 = run_case(&cs[i], &fx);
            crate::det::AUDITS.fetch_add(1, std::sync::atomic::Ordering::Relaxed);
            let class = |o: &Seen| (o.client.as_ref().map(|r| r.is_ok()), o.raw.first().copied(), o.sni.clone(), o.peer_handshake.as_ref().map(|r| r.is_ok()), o.hung, o.panics.len());
            if class(&o) != class(&o2) {
                v.push(("machinery".into(), format!("the same case executed twice differs: {:?} vs {:?}", class(&o), class(&o2))));
            }
        }
        (o, v)
    });
    // thorough tier: every case again under every schedule with one deviation from the default order
    let mut results = results;
    let mut sched_execs = 0u64;
    if args.tier.is_thorough() {
        let extra = crate::evidence::par_map(cs.len(), threads, |i| {
            let c = &cs[i];
            // TLS handshakes are not byte-for-byte reproducible (ring draws its own randomness; ECDSA
            // signatures vary in length), so schedules are only explored where sizes cannot move a
            // scheduling point: whole-flight writes into the large buffer, nothing altered
            if c.io.frag != 0 || c.io.bufsize != 0 || c.io.corrupt.is_some() {
                return (0, vec![]);
            }
            crate::evidence::watchdog::set_context(json!({"engine":"schedmc-c12","uri":c.uri(),"scheme":c.scheme,"host":c.host,"port":c.port,"peer":format!("{:?}", c.peer),"peer_spec":peer_json(&c.peer),"client_alpn":c.client_alpn,"via_client":c.via_client,"io":{"corrupt":c.io.corrupt.map(|(a,m)| vec![a as u64, m as u64]),"frag":c.io.frag,"bufsize":c.io.bufsize,"host_header":c.io.host_header}}));
            let mut found: Vec<(String, String)> = vec![];
            let stats = crate::det::explore(
                1,
                3000,
                |prefix| {
                    let (o, points, err) = run_case_sched(c, &fx, prefix);
                    let mut v = check(c, &o);
                    if let Some(e) = err {
                        v.push(("machinery".into(), e));
                    }
                    crate::det::Execution { points, outcome: v }
                },
                |prefix, _d, ex| {
                    for (sub, msg) in &ex.outcome {
                        if !found.iter().any(|f| f.0 == *sub) {
                            found.push((sub.clone(), format!("{msg} (under schedule {prefix:?})")));
                        }
                    }
                    true
                },
            );
            (stats.executions, found)
        });
        for (i, (n, found)) in extra.into_iter().enumerate() {
            sched_execs += n;
            for f in found {
                if !results[i].1.iter().any(|v| v.0 == f.0) {
                    results[i].1.push(f);
                }
            }
        }
    }
    let _ = std::panic::take_hook();
    let mut classes: BTreeSet<String> = BTreeSet::new();
    let mut samples = vec![];
    for (i, (o, viols)) in results.iter().enumerate() {
        let c = &cs[i];
        let peer_class = match &c.peer {
            Peer::Tls { .. } if c.io.corrupt.is_some() => "tls-corrupted".to_string(),
            Peer::Tls { cert, truncate: None, .. } if c.io.frag > 0 || c.io.bufsize > 0 => format!("tls-{cert}-fragmented"),
            Peer::Tls { cert, truncate: None, .. } => format!("tls-{cert}"),
            Peer::Tls { truncate: Some(_), stall, .. } => format!("tls-truncated-{}", if *stall { "stall" } else { "close" }),
            p => format!("{p:?}"),
        };
        let outcome = match &o.client {
            Some(Ok(_)) => "stream",
            Some(Err(_)) => "error",
            None if o.hung => "pending",
            None => "none",
        };
        classes.insert(format!("{}|{}|{peer_class}|{outcome}|first={:?}", c.scheme, c.host, o.raw.first()));
        if samples.len() < 4 && i % 97 == 5 {
            samples.push(json!({"uri": c.uri(), "peer": format!("{:?}", c.peer), "client": format!("{:?}", o.client), "first_wire_byte": o.raw.first(), "sni": format!("{:?}", o.sni)}));
        }
        for (sub, msg) in viols {
            if sub == "machinery" {
                println!("MACHINERY-ERROR nondeterministic case: {msg}; uri {} peer {:?} io {:?}", c.uri(), c.peer, c.io);
                let _ = run.finish();
                return 2;
            }
            let bare = c.host.rsplit('@').next().unwrap_or(c.host).trim_start_matches('[').trim_end_matches(']');
            let hk = if c.host.contains('@') { "with-userinfo" } else if c.host.starts_with('[') { "ipv6-literal" } else if bare.parse::<std::net::Ipv4Addr>().is_ok() { "ipv4" } else { "name" };
            run.violation(format!("{sub} scheme={} host-kind={hk} peer={peer_class}", c.scheme), format!("{msg}; uri {} peer {:?}", c.uri(), c.peer), json!({"engine":"schedmc-c12","uri":c.uri(),"scheme":c.scheme,"host":c.host,"port":c.port,"peer":format!("{:?}", c.peer),"peer_spec":peer_json(&c.peer),"client_alpn":c.client_alpn,"via_client":c.via_client,"io":{"corrupt":c.io.corrupt.map(|(a,m)| vec![a as u64, m as u64]),"frag":c.io.frag,"bufsize":c.io.bufsize,"host_header":c.io.host_header}}));
        }
    }
    run.cov("evaluations", cs.len() as u64 + sched_execs);
    run.cov("cases", cs.len() as u64);
    if sched_execs > 0 {
        run.cov("schedules_with_one_deviation", sched_execs);
    }
    run.cov("distinct_nontrivial", classes.len() as u64);
    run.cov("server_flight_bytes", flight_len as u64);
    run.cov("exhaustive", true);
    run.cov("rule", "grid scheme{http,https,ws,wss,ftp} x host{DNS, upper-case, localhost, IPv4, [IPv6], underscore, '$', '-', other, 'a..b'} x port{none,443,8443} x peer{real rustls server with certificate matching / IP SAN / other name / untrusted root x server ALPN{none,h2,http/1.1,both} x client ALPN{none,both}; closes at once; answers in plaintext; silent} plus the real server flight truncated at byte offsets (every 3rd in quick, every one in thorough) then close / then stall; one byte of the server flight altered at EVERY offset (xor 0x01; thorough also 0x80); the peer's output cut into pieces of {1,2,5,64} bytes with the client scheduled after each piece, crossed with stream buffers of {64,100,16384} bytes (tokio-rustls on its own, without hyperdriver, stalls over a tokio duplex of fewer than ~20 bytes, so smaller buffers are not used) for the client's own writes, for matching / mismatching / untrusted certificates, directly and through the complete Client; fragmented + truncated; each through the real TlsTransport with a TLS configuration under the deterministic executor, raw bytes recorded at the peer; distinct = (scheme, host, peer class, client outcome, first wire byte)");
    run.cov("samples", samples);
    run.assume("certificate validity is checked at a pinned instant inside the fixture certificates' validity window (rustls TimeProvider); rustls itself is trusted");
    run.assume("DNS host names compare case-insensitively; an IP-literal host offers no server name and is checked against IP SANs");
    run.finish()
}
