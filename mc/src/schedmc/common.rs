//! Shared pieces of the schedmc scenarios: streamed bodies, observation log, raw hyper client scripts.

use crate::det::Exec;
use bytes::Bytes;
use http_body_util::BodyExt;
use hyper::rt::Executor;
use hyperdriver::bridge::io::TokioIo;
use hyperdriver::stream::duplex::DuplexClient;
use std::collections::{BTreeMap, VecDeque};
use std::convert::Infallible;
use std::pin::Pin;
use std::sync::{Arc, Mutex};
use std::task::{Context, Poll};

/// A body that yields its chunks one per poll, returning Pending (self-woken) between them, so
/// that every chunk boundary is a scheduling point.
pub struct ChunkBody {
    chunks: VecDeque<Bytes>,
    yielded: bool,
    /// report no size hint (a streamed body of unknown length: chunked encoding on HTTP/1.1)
    unknown_len: bool,
}

impl ChunkBody {
    pub fn new(chunks: &[&[u8]]) -> Self {
        ChunkBody {
            chunks: chunks.iter().map(|c| Bytes::copy_from_slice(c)).collect(),
            yielded: false,
            unknown_len: false,
        }
    }
    pub fn from_vecs(chunks: Vec<Vec<u8>>) -> Self {
        ChunkBody {
            chunks: chunks.into_iter().map(Bytes::from).collect(),
            yielded: false,
            unknown_len: false,
        }
    }
    /// The same chunks, but the body does not know its length in advance.
    pub fn unsized_len(mut self) -> Self {
        self.unknown_len = true;
        self
    }
}

impl http_body::Body for ChunkBody {
    type Data = Bytes;
    type Error = Infallible;
    fn poll_frame(mut self: Pin<&mut Self>, cx: &mut Context<'_>) -> Poll<Option<Result<http_body::Frame<Bytes>, Infallible>>> {
        if self.chunks.is_empty() {
            return Poll::Ready(None);
        }
        if !self.yielded {
            self.yielded = true;
            cx.waker().wake_by_ref();
            return Poll::Pending;
        }
        self.yielded = false;
        Poll::Ready(Some(Ok(http_body::Frame::data(self.chunks.pop_front().unwrap()))))
    }
    fn is_end_stream(&self) -> bool {
        self.chunks.is_empty()
    }
    fn size_hint(&self) -> http_body::SizeHint {
        if self.unknown_len {
            return http_body::SizeHint::default();
        }
        let n: usize = self.chunks.iter().map(|c| c.len()).sum();
        http_body::SizeHint::with_exact(n as u64)
    }
}

/// Yield once to the scheduler.
pub struct YieldNow(pub bool);
impl std::future::Future for YieldNow {
    type Output = ();
    fn poll(mut self: Pin<&mut Self>, cx: &mut Context<'_>) -> Poll<()> {
        if self.0 {
            Poll::Ready(())
        } else {
            self.0 = true;
            cx.waker().wake_by_ref();
            Poll::Pending
        }
    }
}
pub fn yield_now() -> YieldNow {
    YieldNow(false)
}

/// A deterministic gate (tokio's watch channel picks one of several internal notifiers at random,
/// which made wake order — and therefore schedules — irreproducible).
#[derive(Clone, Default)]
pub struct Gate(Arc<Mutex<(bool, Vec<std::task::Waker>)>>);

impl Gate {
    pub fn new() -> Gate {
        Gate::default()
    }
    pub fn open(&self) {
        let wakers = {
            let mut g = self.0.lock().unwrap();
            g.0 = true;
            std::mem::take(&mut g.1)
        };
        for w in wakers {
            w.wake();
        }
    }
    pub fn is_open(&self) -> bool {
        self.0.lock().unwrap().0
    }
    pub fn wait(&self) -> GateWait {
        GateWait(self.clone())
    }
}

pub struct GateWait(Gate);
impl std::future::Future for GateWait {
    type Output = ();
    fn poll(self: Pin<&mut Self>, cx: &mut Context<'_>) -> Poll<()> {
        let mut g = (self.0).0.lock().unwrap();
        if g.0 {
            Poll::Ready(())
        } else {
            g.1.push(cx.waker().clone());
            Poll::Pending
        }
    }
}

#[derive(Debug, Clone, PartialEq, Eq)]
pub struct Resp {
    pub status: u16,
    pub echo_id: Option<String>,
    pub origin: Option<String>,
    pub body: Vec<u8>,
}

#[derive(Debug, Clone)]
pub struct Seen {
    pub method: String,
    pub path: String,
    pub query: Option<String>,
    pub id_header: Option<String>,
    pub body: Vec<u8>,
    pub origin: String,
    pub version: String,
    /// the Host header the handler saw (HTTP/1 only; on HTTP/2 the authority travels as a pseudo-header)
    pub host: Option<String>,
}

#[derive(Default, Debug)]
pub struct ObsInner {
    pub handler_entered: Vec<u32>,
    pub handler_done: Vec<u32>,
    pub seen: BTreeMap<u32, Seen>,
    pub responses: BTreeMap<u32, Result<Resp, String>>,
    pub client_conn_closed: BTreeMap<u32, String>,
    pub server_result: Option<Result<(), String>>,
    pub entered_at_signal: Option<Vec<u32>>,
    pub done_clients: Vec<u32>,
    pub notes: Vec<String>,
}

pub type Obs = Arc<Mutex<ObsInner>>;

pub fn new_obs() -> Obs {
    Arc::new(Mutex::new(ObsInner::default()))
}

pub fn req_chunks(id: u32) -> Vec<Vec<u8>> {
    vec![format!("req{id}-part-a;").into_bytes(), format!("req{id}-part-b.").into_bytes()]
}
pub fn req_body(id: u32) -> Vec<u8> {
    req_chunks(id).concat()
}
pub fn resp_body(id: u32, origin: &str) -> Vec<u8> {
    let mut v = format!("resp{id}@{origin}:").into_bytes();
    v.extend_from_slice(&req_body(id));
    v.extend_from_slice(b"|tail");
    v
}

/// The handler used by the scenario servers: logs entry, yields, reads the whole request body,
/// answers with an echo in two streamed chunks.
/// Every scripted response carries this `date` header so that hyper does not add the current time:
/// the wall clock would otherwise decide the HPACK encoding (a repeated date is one indexed byte, a
/// new second is a fresh 24-byte literal) and with it the number of small writes — i.e. the schedule.
pub const FIXED_DATE: &str = "Thu, 01 Jan 2026 00:00:00 GMT";

pub async fn handler(obs: Obs, origin: &'static str, req: http::Request<hyperdriver::Body>) -> Result<http::Response<ChunkBody>, Infallible> {
    let id: u32 = req.headers().get("x-id").and_then(|v| v.to_str().ok()).and_then(|s| s.parse().ok()).unwrap_or(0);
    obs.lock().unwrap().handler_entered.push(id);
    let (parts, body) = req.into_parts();
    yield_now().await;
    let data = match body.collect().await {
        Ok(c) => c.to_bytes().to_vec(),
        Err(e) => {
            obs.lock().unwrap().notes.push(format!("handler {id}: body error {e}"));
            return Ok(http::Response::builder().status(400).header("date", FIXED_DATE).body(ChunkBody::new(&[])).unwrap());
        }
    };
    obs.lock().unwrap().seen.insert(
        id,
        Seen {
            method: parts.method.to_string(),
            path: parts.uri.path().to_string(),
            query: parts.uri.query().map(|q| q.to_string()),
            id_header: parts.headers.get("x-id").and_then(|v| v.to_str().ok()).map(|s| s.to_string()),
            body: data.clone(),
            origin: origin.to_string(),
            version: format!("{:?}", parts.version),
            host: parts.headers.get("host").and_then(|v| v.to_str().ok()).map(|s| s.to_string()),
        },
    );
    let mut first = format!("resp{id}@{origin}:").into_bytes();
    first.extend_from_slice(&data);
    let resp = http::Response::builder()
        .status(200)
        .header("date", FIXED_DATE)
        .header("x-echo-id", id.to_string())
        .header("x-origin", origin)
        .body(ChunkBody::from_vecs(vec![first, b"|tail".to_vec()]))
        .unwrap();
    obs.lock().unwrap().handler_done.push(id);
    Ok(resp)
}

pub async fn collect_response<B>(resp: http::Response<B>) -> Result<Resp, String>
where
    B: http_body::Body + Unpin,
    B::Error: std::fmt::Display,
{
    let status = resp.status().as_u16();
    let echo_id = resp.headers().get("x-echo-id").and_then(|v| v.to_str().ok()).map(|s| s.to_string());
    let origin = resp.headers().get("x-origin").and_then(|v| v.to_str().ok()).map(|s| s.to_string());
    let body = resp.into_body().collect().await.map_err(|e| format!("body: {e}"))?.to_bytes().to_vec();
    Ok(Resp { status, echo_id, origin, body })
}

#[derive(Clone, Copy, Debug, PartialEq, Eq)]
pub enum Proto {
    H1,
    H2,
}

/// Raw hyper client: connect, handshake, one POST with a two-chunk body, collect the response, then
/// keep the connection open until `hold` resolves.
pub async fn raw_client(client: DuplexClient, exec: Exec, proto: Proto, id: u32, bufsize: usize, obs: Obs, hold: Gate) {
    raw_client_over(client, None, exec, proto, id, bufsize, obs, hold).await
}

/// The same client; with a connector the stream is first wrapped in TLS (server name example.com).
#[allow(clippy::too_many_arguments)]
pub async fn raw_client_over(client: DuplexClient, tls: Option<tokio_rustls::TlsConnector>, exec: Exec, proto: Proto, id: u32, bufsize: usize, obs: Obs, hold: Gate) {
    let r = raw_client_inner(client, tls, exec, proto, id, bufsize, obs.clone(), hold).await;
    let mut o = obs.lock().unwrap();
    if let Err(e) = r {
        o.responses.entry(id).or_insert(Err(e));
    }
    o.done_clients.push(id);
}

pub trait AnyIo: tokio::io::AsyncRead + tokio::io::AsyncWrite + Unpin + Send {}
impl<T: tokio::io::AsyncRead + tokio::io::AsyncWrite + Unpin + Send> AnyIo for T {}

#[allow(clippy::too_many_arguments)]
async fn raw_client_inner(client: DuplexClient, tls: Option<tokio_rustls::TlsConnector>, exec: Exec, proto: Proto, id: u32, bufsize: usize, obs: Obs, hold: Gate) -> Result<(), String> {
    let stream = client.connect(bufsize).await.map_err(|e| format!("connect: {e}"))?;
    let stream: Box<dyn AnyIo> = match tls {
        None => Box::new(stream),
        Some(connector) => {
            let name = rustls::pki_types::ServerName::try_from("example.com").unwrap();
            Box::new(connector.connect(name, stream).await.map_err(|e| format!("tls: {e}"))?)
        }
    };
    let req = http::Request::builder()
        .method("POST")
        .uri(format!("/r{id}?q={id}"))
        .header("x-id", id.to_string())
        .header("host", "server.test")
        .body(ChunkBody::from_vecs(req_chunks(id)))
        .unwrap();
    let obs2 = obs.clone();
    // `sender` is kept alive (the connection stays open and idle) until the scenario releases the clients
    match proto {
        Proto::H1 => {
            let (mut sender, conn) = hyper::client::conn::http1::handshake(TokioIo::new(stream)).await.map_err(|e| format!("handshake: {e}"))?;
            exec.execute(async move {
                let r = conn.await;
                obs2.lock().unwrap().client_conn_closed.insert(id, format!("{:?}", r.map_err(|e| e.to_string())));
            });
            let resp = sender.send_request(req).await.map_err(|e| format!("send: {e}"))?;
            let r = collect_response(resp).await;
            obs.lock().unwrap().responses.insert(id, r);
            hold.wait().await;
            drop(sender);
        }
        Proto::H2 => {
            let (mut sender, conn) = hyper::client::conn::http2::handshake(exec.clone(), TokioIo::new(stream)).await.map_err(|e| format!("handshake: {e}"))?;
            exec.execute(async move {
                let r = conn.await;
                obs2.lock().unwrap().client_conn_closed.insert(id, format!("{:?}", r.map_err(|e| e.to_string())));
            });
            let resp = sender.send_request(req).await.map_err(|e| format!("send: {e}"))?;
            let r = collect_response(resp).await;
            obs.lock().unwrap().responses.insert(id, r);
            hold.wait().await;
            drop(sender);
        }
    }
    Ok(())
}

pub fn expected_resp(id: u32, origin: &str) -> Resp {
    Resp {
        status: 200,
        echo_id: Some(id.to_string()),
        origin: Some(origin.to_string()),
        body: resp_body(id, origin),
    }
}

/// A client that connects, optionally writes a few bytes, and then stays silent holding the
/// connection until `hold` opens; records when the server closes the connection.
pub async fn silent_client(client: DuplexClient, id: u32, bufsize: usize, prefix: Vec<u8>, obs: Obs, hold: Gate) {
    use tokio::io::{AsyncReadExt, AsyncWriteExt};
    let Ok(mut s) = client.connect(bufsize).await else {
        obs.lock().unwrap().responses.insert(id, Err("connect".into()));
        return;
    };
    obs.lock().unwrap().notes.push(format!("silent{id} connected"));
    if !prefix.is_empty() {
        let _ = s.write_all(&prefix).await;
        let _ = s.flush().await;
    }
    let mut buf = [0u8; 256];
    loop {
        tokio::select! {
            biased;
            r = s.read(&mut buf) => match r {
                Ok(0) | Err(_) => {
                    obs.lock().unwrap().client_conn_closed.insert(id, "eof".into());
                    break;
                }
                Ok(_) => {}
            },
            _ = hold.wait() => break,
        }
    }
    obs.lock().unwrap().done_clients.push(id);
}
