//! TLS fixtures for the schedmc scenarios (server configs, client connectors, a recorded ClientHello).

use super::common::*;
use crate::det::Exec;
use hyper::rt::Executor;
use hyperdriver::bridge::io::TokioIo;
use hyperdriver::stream::duplex::DuplexClient;
use rustls::pki_types::{CertificateDer, PrivateKeyDer, ServerName, UnixTime};
use std::sync::Arc;

pub const FIX: &str = "/verif/fixtures/tls";
/// All verification happens "at" this instant (inside the validity window of the fixture certificates).
pub const PINNED_UNIX_TIME: u64 = 1_800_000_000; // 2027-01-15

#[derive(Debug)]
struct PinnedTime;
impl rustls::time_provider::TimeProvider for PinnedTime {
    fn current_time(&self) -> Option<UnixTime> {
        Some(UnixTime::since_unix_epoch(std::time::Duration::from_secs(PINNED_UNIX_TIME)))
    }
}

pub fn provider() -> Arc<rustls::crypto::CryptoProvider> {
    Arc::new(rustls::crypto::ring::default_provider())
}

fn read_pem(path: &str) -> Result<(String, Vec<u8>), String> {
    let text = std::fs::read(path).map_err(|e| format!("{path}: {e}"))?;
    let (label, der) = pem_rfc7468::decode_vec(&text).map_err(|e| format!("{path}: {e}"))?;
    Ok((label.to_string(), der))
}

pub fn load_cert(name: &str) -> Result<(Vec<CertificateDer<'static>>, PrivateKeyDer<'static>), String> {
    let (_, cert) = read_pem(&format!("{FIX}/{name}.cert.pem"))?;
    let (label, key) = read_pem(&format!("{FIX}/{name}.key.pem"))?;
    let key = match label.as_str() {
        "PRIVATE KEY" => PrivateKeyDer::Pkcs8(key.into()),
        "RSA PRIVATE KEY" => PrivateKeyDer::Pkcs1(key.into()),
        "EC PRIVATE KEY" => PrivateKeyDer::Sec1(key.into()),
        l => return Err(format!("unknown key label {l}")),
    };
    Ok((vec![CertificateDer::from(cert)], key))
}

pub fn server_config(cert: &str, alpn: &[&[u8]]) -> Result<Arc<rustls::ServerConfig>, String> {
    let (chain, key) = load_cert(cert)?;
    let mut cfg = rustls::ServerConfig::builder_with_provider(provider())
        .with_safe_default_protocol_versions()
        .map_err(|e| e.to_string())?
        .with_no_client_auth()
        .with_single_cert(chain, key)
        .map_err(|e| e.to_string())?;
    for a in alpn {
        cfg.alpn_protocols.push(a.to_vec());
    }
    Ok(Arc::new(cfg))
}

pub fn root_store() -> Result<rustls::RootCertStore, String> {
    let mut rs = rustls::RootCertStore::empty();
    let (_, cert) = read_pem("/repo/tests/minica/minica.pem")?;
    rs.add(CertificateDer::from(cert)).map_err(|e| e.to_string())?;
    Ok(rs)
}

/// Client config that verifies against the minica root at the pinned time.
pub fn client_config(alpn: &[&[u8]]) -> Result<rustls::ClientConfig, String> {
    let mut cfg = rustls::ClientConfig::builder_with_details(provider(), Arc::new(PinnedTime))
        .with_safe_default_protocol_versions()
        .map_err(|e| e.to_string())?
        .with_root_certificates(root_store()?)
        .with_no_client_auth();
    // no session resumption: every handshake must be a full, freshly verified one (a shared
    // resumption cache would also make executions depend on the order in which cases run)
    cfg.resumption = rustls::client::Resumption::disabled();
    for a in alpn {
        cfg.alpn_protocols.push(a.to_vec());
    }
    Ok(cfg)
}

#[derive(Debug)]
struct AnyCert(Arc<rustls::crypto::CryptoProvider>);
impl rustls::client::danger::ServerCertVerifier for AnyCert {
    fn verify_server_cert(&self, _: &CertificateDer<'_>, _: &[CertificateDer<'_>], _: &ServerName<'_>, _: &[u8], _: UnixTime) -> Result<rustls::client::danger::ServerCertVerified, rustls::Error> {
        Ok(rustls::client::danger::ServerCertVerified::assertion())
    }
    fn verify_tls12_signature(&self, m: &[u8], c: &CertificateDer<'_>, d: &rustls::DigitallySignedStruct) -> Result<rustls::client::danger::HandshakeSignatureValid, rustls::Error> {
        rustls::crypto::verify_tls12_signature(m, c, d, &self.0.signature_verification_algorithms)
    }
    fn verify_tls13_signature(&self, m: &[u8], c: &CertificateDer<'_>, d: &rustls::DigitallySignedStruct) -> Result<rustls::client::danger::HandshakeSignatureValid, rustls::Error> {
        rustls::crypto::verify_tls13_signature(m, c, d, &self.0.signature_verification_algorithms)
    }
    fn supported_verify_schemes(&self) -> Vec<rustls::SignatureScheme> {
        self.0.signature_verification_algorithms.supported_schemes()
    }
}

pub struct TlsFixture {
    pub server_config: Arc<rustls::ServerConfig>,
    pub any_cert_connector: tokio_rustls::TlsConnector,
    pub client_hello: Vec<u8>,
}

impl TlsFixture {
    pub fn load() -> Result<TlsFixture, String> {
        let server_config = server_config("examplecom", &[b"h2", b"http/1.1"])?;
        let mut cc = rustls::ClientConfig::builder_with_provider(provider())
            .with_safe_default_protocol_versions()
            .map_err(|e| e.to_string())?
            .dangerous()
            .with_custom_certificate_verifier(Arc::new(AnyCert(provider())))
            .with_no_client_auth();
        cc.resumption = rustls::client::Resumption::disabled();
        cc.alpn_protocols.push(b"http/1.1".to_vec());
        let cc = Arc::new(cc);
        // record a ClientHello
        let mut conn = rustls::ClientConnection::new(cc.clone(), ServerName::try_from("example.com").unwrap()).map_err(|e| e.to_string())?;
        let mut hello = vec![];
        conn.write_tls(&mut hello).map_err(|e| e.to_string())?;
        Ok(TlsFixture {
            server_config,
            any_cert_connector: tokio_rustls::TlsConnector::from(cc),
            client_hello: hello,
        })
    }
}

/// A well-behaved HTTP/1.1 client over TLS (certificate checks disabled: C09 is about the server).
pub async fn tls_good_client(client: DuplexClient, exec: Exec, connector: tokio_rustls::TlsConnector, id: u32, obs: Obs) {
    let r: Result<(), String> = async {
        let stream = client.connect(4096).await.map_err(|e| format!("connect: {e}"))?;
        let tls = connector.connect(ServerName::try_from("example.com").unwrap(), stream).await.map_err(|e| format!("tls: {e}"))?;
        let (mut sender, conn) = hyper::client::conn::http1::handshake(TokioIo::new(tls)).await.map_err(|e| format!("handshake: {e}"))?;
        exec.execute(async move {
            let _ = conn.await;
        });
        let req = http::Request::builder()
            .method("POST")
            .uri(format!("/r{id}?q={id}"))
            .header("x-id", id.to_string())
            .header("host", "example.com")
            .body(ChunkBody::from_vecs(req_chunks(id)))
            .unwrap();
        let resp = sender.send_request(req).await.map_err(|e| format!("send: {e}"))?;
        let r = collect_response(resp).await;
        obs.lock().unwrap().responses.insert(id, r);
        Ok(())
    }
    .await;
    if let Err(e) = r {
        obs.lock().unwrap().responses.entry(id).or_insert(Err(e));
    }
}
