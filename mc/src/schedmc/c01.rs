//! C01 — requests and responses intact and matched end to end: the real client (pool, layers,
//! HttpConnectionBuilder) against real hyperdriver servers over in-memory duplex streams, every
//! schedule with a bounded number of deviations, cancellation of any request at any point.

use super::common::*;
use crate::det::{explore, Execution, Sched};
use crate::evidence::{Args, Run};
use hyper::rt::Executor;
use hyperdriver::client::conn::protocol::auto::HttpConnectionBuilder;
use hyperdriver::server::AutoBuilder;
use hyperdriver::stream::duplex::{self, DuplexClient, DuplexStream};
use hyperdriver::{Body, Server};
use serde_json::json;
use std::collections::BTreeSet;
use std::task::{Context, Poll};
use tower::Service;

/// Transport that routes by URI authority to one of two in-process servers.
#[derive(Clone, Debug)]
pub struct RouteTransport {
    a: DuplexClient,
    b: DuplexClient,
    bufsize: usize,
    /// number of connections dialled through this transport (and its clones)
    pub dials: std::sync::Arc<std::sync::atomic::AtomicUsize>,
}

impl tower::Service<http::request::Parts> for RouteTransport {
    type Response = DuplexStream;
    type Error = std::io::Error;
    type Future = std::pin::Pin<Box<dyn std::future::Future<Output = Result<DuplexStream, std::io::Error>> + Send>>;
    fn poll_ready(&mut self, _: &mut Context<'_>) -> Poll<Result<(), Self::Error>> {
        Poll::Ready(Ok(()))
    }
    fn call(&mut self, req: http::request::Parts) -> Self::Future {
        let host = req.uri.host().unwrap_or("").to_string();
        let c = if host.starts_with('b') { self.b.clone() } else { self.a.clone() };
        let bufsize = self.bufsize;
        self.dials.fetch_add(1, std::sync::atomic::Ordering::SeqCst);
        Box::pin(async move { c.connect(bufsize).await })
    }
}

pub fn route(a: DuplexClient, b: DuplexClient, bufsize: usize) -> RouteTransport {
    RouteTransport { a, b, bufsize, dials: Default::default() }
}

#[derive(Clone, Debug, PartialEq, Eq)]
pub struct ReqSpec {
    pub id: u32,
    pub origin: char,
    pub h2: bool,
    pub post: bool,
    /// 0 = empty body, 1 = one chunk, 2 = two streamed chunks
    pub chunks: u8,
    pub upgrade: bool,
    /// request target is the root path with a query ("/?q=id") instead of "/r<id>?q=<id>"
    pub root_path: bool,
    /// the caller supplies its own Host header (name-based virtual hosting: another name than the URI's)
    pub custom_host: bool,
    /// the request's version is HTTP/1.0 (carried over an HTTP/1.1 connection)
    pub h10: bool,
    /// the body does not announce its length (streamed; chunked encoding on HTTP/1.1)
    pub unsized_body: bool,
}

#[derive(Clone, Debug)]
pub struct Scn {
    pub name: String,
    pub prelude: Vec<ReqSpec>,
    pub concurrent: Vec<ReqSpec>,
    pub bufsize: usize,
    pub cancellable: bool,
    /// the client's protocol only speaks HTTP/1.1 (as when ALPN settles on http/1.1): a request
    /// that asks for HTTP/2 gets a connection that cannot be shared
    pub h1_only_client: bool,
    /// the pool is configured with continue_after_preemption = false
    pub no_continue: bool,
    /// the pool is configured with this `max_idle_per_host` (a legal corner: 0 keeps nothing idle)
    pub max_idle: Option<usize>,
    /// environment event: the task that hands a released connection back to the pool is dropped before it has
    /// finished (the runtime it was spawned on shuts down) — at any scheduling point
    pub drop_handback: bool,
}

impl Default for ChunkBody {
    fn default() -> Self {
        ChunkBody::new(&[])
    }
}

type ClientSvc = hyperdriver::service::SharedService<http::Request<ChunkBody>, http::Response<Body>, hyperdriver::client::Error>;

fn spec_body(s: &ReqSpec) -> Vec<Vec<u8>> {
    match s.chunks {
        0 => vec![],
        1 => vec![req_body(s.id)],
        _ => req_chunks(s.id),
    }
}

fn expected_for(s: &ReqSpec) -> Resp {
    let origin = if s.origin == 'b' { "B" } else { "A" };
    let mut body = format!("resp{}@{origin}:", s.id).into_bytes();
    body.extend(spec_body(s).concat());
    body.extend_from_slice(b"|tail");
    Resp {
        status: 200,
        echo_id: Some(s.id.to_string()),
        origin: Some(origin.to_string()),
        body,
    }
}

async fn do_request(svc: ClientSvc, spec: ReqSpec, obs: Obs) {
    do_request_gated(svc, spec, obs, None).await
}

/// `head` is opened as soon as the response head has arrived (the body is still to be read).
async fn do_request_gated(mut svc: ClientSvc, spec: ReqSpec, obs: Obs, head: Option<Gate>) {
    let uri = if spec.root_path { format!("http://{}.test/?q={}", spec.origin, spec.id) } else { format!("http://{}.test/r{}?q={}", spec.origin, spec.id, spec.id) };
    let mut b = http::Request::builder()
        .method(if spec.post { "POST" } else { "GET" })
        .uri(uri)
        .version(if spec.h2 { http::Version::HTTP_2 } else if spec.h10 { http::Version::HTTP_10 } else { http::Version::HTTP_11 })
        .header("x-id", spec.id.to_string());
    if spec.custom_host {
        b = b.header("host", format!("tenant-{}.example", spec.id));
    }
    if spec.upgrade {
        b = b.header(http::header::UPGRADE, "test-proto").header(http::header::CONNECTION, "upgrade");
    }
    let body = ChunkBody::from_vecs(spec_body(&spec));
    let req = b.body(if spec.unsized_body { body.unsized_len() } else { body }).unwrap();
    let r = match std::future::poll_fn(|cx| svc.poll_ready(cx)).await {
        Ok(()) => svc.call(req).await,
        Err(e) => Err(e),
    };
    if let Some(g) = &head {
        g.open();
    }
    let out = match r {
        Err(e) => Err(format!("request: {e}")),
        Ok(mut resp) => {
            if spec.upgrade {
                let status = resp.status().as_u16();
                match hyper::upgrade::on(&mut resp).await {
                    Ok(up) => {
                        use tokio::io::{AsyncReadExt, AsyncWriteExt};
                        let mut io = hyperdriver::bridge::io::TokioIo::new(up);
                        // the message goes out in two pieces, so that the peer's read_exact meets a partly filled buffer
                        let _ = io.write_all(b"he").await;
                        let _ = io.flush().await;
                        yield_now().await;
                        yield_now().await;
                        let _ = io.write_all(b"llo").await;
                        let mut buf = [0u8; 5];
                        let r = io.read_exact(&mut buf).await;
                        Ok(Resp { status, echo_id: Some(spec.id.to_string()), origin: None, body: if r.is_ok() { buf.to_vec() } else { b"<upgraded-io-failed>".to_vec() } })
                    }
                    Err(e) => Err(format!("upgrade: {e}")),
                }
            } else {
                collect_response(resp).await
            }
        }
    };
    let mut o = obs.lock().unwrap();
    o.responses.insert(spec.id, out);
    o.done_clients.push(spec.id);
}

/// Server-side handler: the common echo handler, plus the upgrade path.
async fn srv_handler(obs: Obs, origin: &'static str, exec: crate::det::Exec, mut req: http::Request<Body>) -> Result<http::Response<ChunkBody>, std::convert::Infallible> {
    if req.headers().contains_key(http::header::UPGRADE) {
        let id: u32 = req.headers().get("x-id").and_then(|v| v.to_str().ok()).and_then(|s| s.parse().ok()).unwrap_or(0);
        obs.lock().unwrap().handler_entered.push(id);
        let on = hyper::upgrade::on(&mut req);
        exec.execute(async move {
            if let Ok(up) = on.await {
                use tokio::io::{AsyncReadExt, AsyncWriteExt};
                let mut io = hyperdriver::bridge::io::TokioIo::new(up);
                let mut buf = [0u8; 5];
                if io.read_exact(&mut buf).await.is_ok() {
                    let _ = io.write_all(b"wor").await;
                    let _ = io.flush().await;
                    yield_now().await;
                    yield_now().await;
                    let _ = io.write_all(b"ld").await;
                }
            }
        });
        return Ok(http::Response::builder()
            .status(101)
            .header("date", FIXED_DATE)
            .header(http::header::UPGRADE, "test-proto")
            .header(http::header::CONNECTION, "upgrade")
            .body(ChunkBody::new(&[]))
            .unwrap());
    }
    handler(obs, origin, req).await
}

macro_rules! spawn_origin {
    ($s:expr, $incoming:expr, $obs:expr, $origin:expr) => {{
        let obs_h = $obs.clone();
        let obs = $obs.clone();
        let exec = $s.exec.clone();
        let exec_h = $s.exec.clone();
        let svc = tower::service_fn(move |req: http::Request<Body>| srv_handler(obs_h.clone(), $origin, exec_h.clone(), req));
        let server = Server::builder().with_acceptor($incoming).with_shared_service(svc).with_protocol(AutoBuilder::new(exec.clone())).with_executor(exec);
        $s.spawn(concat!("server", $origin), async move {
            let r = server.await;
            obs.lock().unwrap().notes.push(format!("server {} ended: {:?}", $origin, r.map_err(|e| e.to_string())));
        });
    }};
}

#[derive(Debug, Clone)]
pub struct Outcome {
    pub viols: Vec<(String, String)>,
    pub trace: String,
    pub schedule: Vec<String>,
}

pub fn run_one(scn: &Scn, schedule: &[usize]) -> Execution<Outcome> {
    let mut s = Sched::new(schedule.to_vec());
    let obs = new_obs();
    let (ca, ia) = duplex::pair();
    let (cb, ib) = duplex::pair();
    spawn_origin!(s, ia, obs, "A");
    spawn_origin!(s, ib, obs, "B");
    let transport = RouteTransport { a: ca.clone(), b: cb.clone(), bufsize: scn.bufsize, dials: Default::default() };
    let svc: ClientSvc = if scn.h1_only_client {
        hyperdriver::Client::builder()
            .with_protocol(hyper::client::conn::http1::Builder::new())
            .with_transport(transport)
            .with_default_pool()
            .without_timeout()
            .without_tls()
            .with_body::<ChunkBody, Body>()
            .build_service()
    } else if scn.no_continue || scn.max_idle.is_some() {
        let mut pc = hyperdriver::client::PoolConfig::default();
        pc.continue_after_preemption = !scn.no_continue;
        if let Some(m) = scn.max_idle {
            pc.max_idle_per_host = m;
        }
        hyperdriver::Client::builder()
            .with_protocol(HttpConnectionBuilder::<ChunkBody>::default())
            .with_transport(transport)
            .with_pool(pc)
            .without_timeout()
            .without_tls()
            .with_body::<ChunkBody, Body>()
            .build_service()
    } else {
        hyperdriver::Client::builder()
            .with_protocol(HttpConnectionBuilder::<ChunkBody>::default())
            .with_transport(transport)
            .with_default_pool()
            .without_timeout()
            .without_tls()
            .with_body::<ChunkBody, Body>()
            .build_service()
    };
    // prelude: earlier requests, one after the other, leaving connections in the pool
    let start = Gate::new();
    {
        let svc = svc.clone();
        let obs = obs.clone();
        let prelude = scn.prelude.clone();
        let start = start.clone();
        s.spawn("prelude", async move {
            for p in prelude {
                do_request(svc.clone(), p, obs.clone()).await;
                // give the released connection time to return to the pool
                yield_now().await;
            }
            start.open();
        });
    }
    let mut task_ids = vec![];
    let mut prev_head: Option<Gate> = None;
    for spec in &scn.concurrent {
        let svc = svc.clone();
        let obs = obs.clone();
        let start = start.clone();
        let spec = spec.clone();
        // chained: a request is issued when the previous one's response HEAD has arrived (its body is still unread)
        let wait_for = if scn.drop_handback { prev_head.clone() } else { None };
        let my_head = Gate::new();
        prev_head = Some(my_head.clone());
        let tid = s.spawn(&format!("req{}", spec.id), async move {
            start.wait().await;
            if let Some(g) = wait_for {
                g.wait().await;
            }
            do_request_gated(svc, spec, obs, Some(my_head)).await;
        });
        task_ids.push(tid);
    }
    let cancelled = std::sync::Arc::new(std::sync::Mutex::new(Vec::<u32>::new()));
    if scn.cancellable {
        for (i, spec) in scn.concurrent.iter().enumerate() {
            let tid = task_ids[i];
            let id = spec.id;
            let c = cancelled.clone();
            let start = start.clone();
            s.env(&format!("cancel-req{id}"), false, move |s| start.is_open() && !s.task_done(tid), move |s| {
                c.lock().unwrap().push(id);
                s.cancel_task(tid);
            });
        }
    }
    if scn.drop_handback {
        let is_handback = |n: &str| n.starts_with("lib:") && n.contains("pool/mod.rs");
        s.env("drop-hand-back-task", false, move |s| s.find_live_task(is_handback).is_some(), move |s| {
            if let Some(t) = s.find_live_task(is_handback) {
                s.cancel_task(t);
            }
        });
    }
    drop(svc);
    s.run();
    let mut viols = vec![];
    {
        let o = obs.lock().unwrap();
        if let Some(m) = &s.replay_error {
            viols.push(("machinery".into(), m.clone()));
        }
        if s.livelock {
            viols.push(("livelock".into(), "execution did not quiesce within the horizon".into()));
        }
        for (t, p) in s.panics() {
            viols.push(("panic".into(), format!("task {t} panicked: {p}")));
        }
        let cancelled = cancelled.lock().unwrap().clone();
        for spec in scn.prelude.iter().chain(scn.concurrent.iter()) {
            let was_cancelled = cancelled.contains(&spec.id);
            match o.responses.get(&spec.id) {
                None => {
                    if !was_cancelled {
                        viols.push(("request-not-completed".into(), format!("request {} was neither cancelled nor broken by the peer but did not complete", spec.id)));
                    }
                }
                Some(Err(e)) => viols.push(("request-failed".into(), format!("request {} failed although nothing broke its connection: {e}", spec.id))),
                Some(Ok(r)) => {
                    if spec.upgrade {
                        if r.status != 101 || r.body != b"world" {
                            viols.push(("upgrade-broken".into(), format!("upgrade request {} saw {r:?}", spec.id)));
                        }
                    } else if *r != expected_for(spec) {
                        let kind = if r.echo_id != Some(spec.id.to_string()) { "response-mismatched" } else { "response-altered" };
                        viols.push((kind.into(), format!("request {} received {r:?}, expected {:?}", spec.id, expected_for(spec))));
                    }
                }
            }
            // what the server handled must be what the client sent
            if let Some(seen) = o.seen.get(&spec.id) {
                let want_body = spec_body(spec).concat();
                let want_origin = if spec.origin == 'b' { "B" } else { "A" };
                if seen.method != (if spec.post { "POST" } else { "GET" }) || seen.path != (if spec.root_path { "/".to_string() } else { format!("/r{}", spec.id) }) || seen.query != Some(format!("q={}", spec.id)) || seen.id_header != Some(spec.id.to_string()) || seen.body != want_body || seen.origin != want_origin {
                    viols.push(("request-altered".into(), format!("the server handled request {} as {seen:?}", spec.id)));
                }
                // headers the caller sent: its own Host header must arrive unchanged on an HTTP/1 connection
                if spec.custom_host && seen.version != "HTTP/2.0" && seen.host != Some(format!("tenant-{}.example", spec.id)) {
                    viols.push(("request-altered".into(), format!("request {} carried the caller's Host header tenant-{}.example but the server saw {:?}", spec.id, spec.id, seen.host)));
                }
            }
        }
    }
    let o = obs.lock().unwrap();
    let trace = format!(
        "responses={:?} seen={:?} cancelled={:?} entered={:?}",
        o.responses.iter().map(|(k, v)| (*k, v.as_ref().map(|r| r.status).map_err(|e| e.clone()))).collect::<Vec<_>>(),
        o.seen.iter().map(|(k, v)| (*k, v.version.clone())).collect::<Vec<_>>(),
        cancelled.lock().unwrap(),
        o.handler_entered,
    );
    drop(o);
    let schedule_text = s.schedule_text();
    let points = s.points.clone();
    s.teardown();
    drop((ca, cb));
    Execution { points, outcome: Outcome { viols, trace, schedule: schedule_text } }
}

fn r(id: u32, origin: char, h2: bool, post: bool, chunks: u8) -> ReqSpec {
    ReqSpec { id, origin, h2, post, chunks, upgrade: false, root_path: false, custom_host: false, h10: false, unsized_body: false }
}

pub fn scenarios(thorough: bool) -> Vec<Scn> {
    let mk = |name: &str, prelude: Vec<ReqSpec>, concurrent: Vec<ReqSpec>, bufsize: usize, cancellable: bool| Scn { name: name.into(), prelude, concurrent, bufsize, cancellable, h1_only_client: false, no_continue: false, max_idle: None, drop_handback: false };
    let mut v = vec![
        mk("h1-2-concurrent", vec![], vec![r(1, 'a', false, true, 2), r(2, 'a', false, true, 1)], 1024, true),
        mk("h1-reuse-after-prelude", vec![r(9, 'a', false, true, 1)], vec![r(1, 'a', false, true, 2), r(2, 'a', false, false, 0)], 1024, true),
        mk("h2-2-concurrent", vec![], vec![r(1, 'a', true, true, 2), r(2, 'a', true, true, 1)], 1024, true),
        mk("h2-shared-after-prelude", vec![r(9, 'a', true, false, 0)], vec![r(1, 'a', true, true, 2), r(2, 'a', true, true, 1)], 1024, true),
        mk("mixed-h1-h2-one-origin", vec![], vec![r(1, 'a', false, true, 1), r(2, 'a', true, true, 2)], 1024, true),
        mk("two-origins-h1", vec![], vec![r(1, 'a', false, true, 1), r(2, 'b', false, true, 2)], 1024, true),
        mk("h1-small-buffer", vec![], vec![r(1, 'a', false, true, 2), r(2, 'a', false, true, 2)], 16, false),
        mk("h2-small-buffer", vec![], vec![r(1, 'a', true, true, 2), r(2, 'a', true, true, 2)], 16, false),
        mk("upgrade-then-normal", vec![ReqSpec { id: 9, origin: 'a', h2: false, post: false, chunks: 0, upgrade: true, root_path: false, custom_host: false, h10: false, unsized_body: false }], vec![r(1, 'a', false, true, 1)], 1024, false),
        mk("root-path-with-query", vec![], vec![ReqSpec { root_path: true, ..r(1, 'a', false, true, 1) }, ReqSpec { root_path: true, ..r(2, 'a', true, false, 0) }], 1024, false),
        mk("two-origins-preludes", vec![r(8, 'a', false, true, 1), r(9, 'b', false, true, 1)], vec![r(1, 'a', false, true, 1), r(2, 'b', false, true, 1)], 1024, true),
    ];
    // the caller's own Host header (another name than the URI authority)
    v.push(mk("h1-caller-supplied-host", vec![ReqSpec { custom_host: true, ..r(9, 'a', false, true, 1) }], vec![ReqSpec { custom_host: true, ..r(1, 'a', false, true, 1) }, r(2, 'a', false, false, 0)], 1024, false));
    // request versions below HTTP/1.1 and bodies that do not announce their length: an HTTP/1.0 request is
    // carried over an HTTP/1.1 connection, a streamed body arrives complete whatever the request's version
    v.push(mk(
        "h1-http10-and-unsized-bodies",
        vec![ReqSpec { h10: true, ..r(9, 'a', false, false, 0) }],
        vec![ReqSpec { h10: true, unsized_body: true, ..r(1, 'a', false, true, 2) }, ReqSpec { unsized_body: true, ..r(2, 'a', false, true, 2) }],
        1024,
        false,
    ));
    v.push(mk("h2-unsized-bodies", vec![], vec![ReqSpec { unsized_body: true, ..r(1, 'a', true, true, 2) }, ReqSpec { h10: true, unsized_body: true, ..r(2, 'a', false, true, 1) }], 1024, false));
    // requests that ask for HTTP/2 through a client whose protocol only speaks HTTP/1.1: the first
    // one's attempt is marked as multiplexed, the others wait for it, the connection that comes
    // back cannot be shared
    v.push(Scn { h1_only_client: true, ..mk("h2-requests-h1-only-protocol-2-concurrent", vec![], vec![r(1, 'a', true, true, 1), r(2, 'a', true, true, 1)], 1024, false) });
    // HTTP/1.1 and HTTP/2 requests to one origin with abandoned attempts dropped (continue_after_preemption =
    // false): a released HTTP/1.1 connection may pre-empt the owner of an HTTP/2 attempt others wait for
    v.push(Scn { no_continue: true, ..mk("mixed-h1-two-h2-no-continue", vec![], vec![r(1, 'a', false, true, 1), r(2, 'a', true, true, 1), r(3, 'a', true, false, 0)], 1024, false) });
    // a pool that keeps nothing idle (max_idle_per_host = 0): concurrent HTTP/2 requests still share the attempt
    // and every one of them is served; HTTP/1.1 requests are served by connections of their own
    v.push(Scn { max_idle: Some(0), ..mk("h2-2-concurrent-max-idle-0", vec![], vec![r(1, 'a', true, true, 1), r(2, 'a', true, true, 1)], 1024, true) });
    v.push(Scn { max_idle: Some(0), ..mk("h1-after-prelude-max-idle-0", vec![r(9, 'a', false, true, 1)], vec![r(1, 'a', false, true, 1), r(2, 'a', false, false, 0)], 1024, false) });
    // the hand-back task of a released HTTP/1.1 connection is dropped at any point (its runtime goes away) while the
    // response is still being read: the connection must not come back to the pool in use
    v.push(Scn { drop_handback: true, ..mk("h1-hand-back-task-dropped", vec![r(9, 'a', false, true, 2)], vec![r(1, 'a', false, true, 2), r(2, 'a', false, true, 1)], 1024, false) });
    v.push(Scn { drop_handback: true, ..mk("h1-hand-back-task-dropped-small-buffer", vec![], vec![r(1, 'a', false, true, 2), r(2, 'a', false, true, 2)], 16, false) });
    if thorough {
        v.push(mk("h1-3-concurrent", vec![], vec![r(1, 'a', false, true, 1), r(2, 'a', false, true, 2), r(3, 'a', false, false, 0)], 1024, true));
        v.push(mk("h2-3-concurrent", vec![], vec![r(1, 'a', true, true, 1), r(2, 'a', true, true, 2), r(3, 'a', true, false, 0)], 1024, true));
        v.push(mk("mixed-3-two-origins", vec![r(9, 'a', false, true, 1)], vec![r(1, 'a', false, true, 1), r(2, 'b', true, true, 2), r(3, 'a', true, true, 1)], 1024, true));
    }
    v
}

/// The scenarios in which the hand-back task of a released HTTP/1.1 connection is dropped at any scheduling point,
/// explored for C02: no request may be sent on a connection whose previous response is still being read (the real
/// client, real hyper connections; a request that meets a busy connection fails with hyper's "not ready").
/// Returns (executions, violations).
pub fn handback_drop_runs(thorough: bool) -> (u64, Vec<(String, String, serde_json::Value)>) {
    let scns: Vec<Scn> = scenarios(thorough).into_iter().filter(|s| s.drop_handback).collect();
    let mut n = 0;
    let mut out = vec![];
    for scn in &scns {
        let b = if scn.bufsize < 64 { 1 } else { 2 };
        let mut found: Vec<(String, String, Vec<usize>, Vec<String>)> = vec![];
        let stats = explore(b, 200_000, |prefix| run_one(scn, prefix), |prefix, _d, ex| {
            for (sub, msg) in &ex.outcome.viols {
                if !found.iter().any(|f| f.0 == *sub) {
                    found.push((sub.clone(), msg.clone(), prefix.to_vec(), ex.outcome.schedule.clone()));
                }
            }
            true
        });
        n += stats.executions;
        for (sub, msg, prefix, sched) in found {
            out.push((format!("e2e {sub} scenario={}", scn.name), format!("{msg}; scenario {} schedule {:?}", scn.name, sched), json!({"engine":"schedmc-c01","scenario":scn.name,"schedule":prefix})));
        }
    }
    (n, out)
}

pub fn run(args: &Args) -> i32 {
    let thorough = args.tier.is_thorough();
    if let Some(p) = &args.replay {
        return replay(p);
    }
    std::panic::set_hook(Box::new(|_| {}));
    let mut run = Run::new("C01", args.tier, "model_checking");
    let mut scns = scenarios(thorough);
    if let Ok(only) = std::env::var("HDMC_C01_ONLY") {
        scns.retain(|s| s.name == only);
        if std::env::var("HDMC_C01_DIVERGE").is_ok() {
            let pf: Vec<usize> = std::env::var("HDMC_C01_PREFIX").ok().and_then(|s| serde_json::from_str(&s).ok()).unwrap_or_default();
            let base = run_one(&scns[0], &pf);
            for k in 0..2000 {
                let again = run_one(&scns[0], &pf);
                let a: Vec<(usize, &str)> = base.points.iter().map(|p| (p.menu_len, p.what.as_str())).collect();
                let b: Vec<(usize, &str)> = again.points.iter().map(|p| (p.menu_len, p.what.as_str())).collect();
                if a != b {
                    let i = a.iter().zip(b.iter()).position(|(x, y)| x != y).unwrap_or(a.len().min(b.len()));
                    println!("run {k} diverges at point {i}: base {:?} vs {:?}", a.get(i), b.get(i));
                    for j in i.saturating_sub(6)..(i + 3).min(a.len()) {
                        println!("  {j}: base {:?} | again {:?}", a.get(j), b.get(j));
                    }
                    println!("base schedule tail: {:?}", &base.outcome.schedule[base.outcome.schedule.len().saturating_sub(0)..]);
                    return 0;
                }
            }
            println!("no divergence in 2000 runs of the default schedule");
            return 0;
        }
    }
    let bound = if thorough { 3 } else { 2 };
    let cap: u64 = if thorough { 3_000_000 } else { 60_000 };
    let results = crate::evidence::par_map(scns.len(), crate::evidence::n_threads(), |i| {
        let scn = &scns[i];
        let b = if (scn.concurrent.len() >= 3 && !scn.no_continue) || (!thorough && scn.bufsize < 64) { bound - 1 } else { bound };
        let mut traces: BTreeSet<String> = BTreeSet::new();
        let mut found: Vec<(String, String, Vec<usize>, Vec<String>)> = vec![];
        crate::evidence::watchdog::set_context(json!({"engine":"schedmc-c01","scenario":scn.name}));
        let stats = explore(b, cap, |prefix| run_one(scn, prefix), |prefix, _d, ex| {
            traces.insert(ex.outcome.trace.clone());
            for (sub, msg) in &ex.outcome.viols {
                if !found.iter().any(|f| f.0 == *sub) {
                    found.push((sub.clone(), msg.clone(), prefix.to_vec(), ex.outcome.schedule.clone()));
                }
            }
            true
        });
        (stats, traces.len(), found, b)
    });
    let _ = std::panic::take_hook();
    let mut machinery: Option<String> = None;
    let mut determinism = 0u64;
    for scn in &scns {
        let a = run_one(scn, &[]);
        let b = run_one(scn, &[]);
        determinism += 1;
        if a.outcome.trace != b.outcome.trace || a.outcome.schedule != b.outcome.schedule {
            machinery = Some(format!("scenario {} is not deterministic under the controlled executor", scn.name));
        }
    }
    let mut evaluations = 0;
    let mut distinct = 0;
    let mut per = vec![];
    let mut exhaustive = true;
    for (i, (stats, ntr, found, b)) in results.into_iter().enumerate() {
        let scn = &scns[i];
        evaluations += stats.executions;
        distinct += ntr as u64;
        if stats.capped {
            exhaustive = false;
        }
        println!("  [{}] bound={} executions={} by-deviations={:?} default-points={} max-points={} max-runnable={} distinct-traces={}{}", scn.name, b, stats.executions, stats.by_deviations, stats.default_points, stats.max_points, stats.max_runnable, ntr, if stats.capped { " CAPPED" } else { "" });
        per.push(json!({"scenario": scn.name, "deviation_bound": b, "executions": stats.executions, "by_deviations": stats.by_deviations, "scheduling_points_default": stats.default_points,
            "max_points": stats.max_points, "max_runnable": stats.max_runnable, "executions_with_two_or_more_runnable": stats.with_concurrency, "distinct_observation_traces": ntr, "capped": stats.capped}));
        for (sub, msg, prefix, sched) in found {
            if sub == "machinery" {
                machinery = Some(msg.clone());
                continue;
            }
            run.violation(format!("{sub} scenario={}", scn.name), format!("{msg}; scenario {} schedule {:?}", scn.name, sched), json!({"engine":"schedmc-c01","scenario":scn.name,"schedule":prefix}));
        }
    }
    // pool level of the last sentence ("a request that is not cancelled and whose connection the peer does not
    // break completes successfully"): every history of three requests in which nothing fails, closes or is
    // cancelled, on the real pool with scripted dials (explicit-state search, see poolmc)
    {
        std::panic::set_hook(Box::new(|_| {}));
        let mut pool_run = Run::new("C01", args.tier, "model_checking");
        let err = crate::poolmc::run_into(&mut pool_run, "C01", thorough);
        let _ = std::panic::take_hook();
        if let Some(m) = err {
            machinery = Some(m);
        }
        run.cov("pool_level_no_spurious_failure", serde_json::Value::Object(std::mem::take(&mut pool_run.coverage)));
        for vv in std::mem::take(&mut pool_run.violations) {
            run.violation(vv.signature, vv.what, vv.replay);
        }
        let _ = pool_run; // never finished: it writes no evidence of its own
    }
    run.cov("evaluations", evaluations);
    run.cov("distinct_nontrivial", distinct);
    run.cov("schedules_executed_on_real_code", evaluations);
    run.cov("determinism_double_runs", determinism);
    run.cov("scenarios", per);
    run.cov("exhaustive", exhaustive);
    run.cov("rule", "for each scenario (HTTP/1.1 / HTTP/2 / mixed, one or two origins, with or without earlier requests that left connections in the pool, streamed bodies, 16-byte and 1024-byte duplex buffers, an HTTP/1.1 upgrade followed by a normal request) every schedule of the real client (pool, layers, connection builder) and real servers under the deterministic executor with at most `deviation_bound` deviations from FIFO-by-wake; cancelling any concurrent request at any scheduling point is one kind of deviation; distinct = distinct observation traces (per-request outcome, protocol version seen by the server, cancellations)");
    run.cov("samples", vec![json!({"scenario":"h1-reuse-after-prelude","schedule":"default","expect":"request 9 then 1 and 2 answered with their own id, origin and body; one of 1/2 reuses the pooled connection"})]);
    run.assume("request bodies of at most two chunks, at most 3 concurrent requests, two origins; values outside this alphabet are not covered");
    run.assume("deviation-bounded: schedules with more deviations than the bound are not explored");
    if let Some(m) = machinery {
        println!("MACHINERY-ERROR {m}");
        let _ = run.finish();
        return 2;
    }
    run.finish()
}

fn replay(path: &str) -> i32 {
    let text = std::fs::read_to_string(path).expect("replay file");
    let doc: serde_json::Value = serde_json::from_str(&text).expect("json");
    let rp = doc.get("replay").cloned().unwrap_or(doc);
    let name = rp.get("scenario").and_then(|x| x.as_str()).unwrap_or("");
    let sched: Vec<usize> = rp.get("schedule").and_then(|x| x.as_array()).map(|a| a.iter().filter_map(|x| x.as_u64().map(|x| x as usize)).collect()).unwrap_or_default();
    let Some(scn) = scenarios(true).into_iter().find(|s| s.name == name) else {
        println!("MACHINERY-ERROR unknown scenario {name}");
        return 2;
    };
    let a = run_one(&scn, &sched);
    let b = run_one(&scn, &sched);
    if a.outcome.trace != b.outcome.trace || a.outcome.schedule != b.outcome.schedule {
        println!("MACHINERY-ERROR replay diverged");
        return 2;
    }
    for l in &a.outcome.schedule {
        println!("  {l}");
    }
    println!("  trace: {}", a.outcome.trace);
    if a.outcome.viols.is_empty() {
        println!("replay holds");
        0
    } else {
        for (s, m) in &a.outcome.viols {
            println!("  {s}: {m}");
        }
        println!("VIOLATION property=C01 replay={path}");
        1
    }
}


/// C15, configuration plumbing: the idle bound a caller configures through the public client
/// builder must be the bound the pool enforces, whatever the order of the builder calls. Two
/// sequential HTTP/1.1 requests to one origin under the deterministic executor: with
/// `max_idle_per_host = 0` nothing may be kept, so the second request has to dial again; with 1 it
/// must reuse. Returns (runs, violations).
pub fn builder_pool_bound_runs() -> (u64, Vec<(String, String, serde_json::Value)>) {
    let mut viols = vec![];
    let mut n = 0u64;
    for pool_first in [true, false] {
        for max_idle in [0usize, 1] {
            n += 1;
            let mut s = Sched::new(vec![]);
            let obs = new_obs();
            let (ca, ia) = duplex::pair();
            let (cb, ib) = duplex::pair();
            spawn_origin!(s, ia, obs, "A");
            spawn_origin!(s, ib, obs, "B");
            let transport = route(ca.clone(), cb.clone(), 1024);
            let dials = transport.dials.clone();
            let mut cfg = hyperdriver::client::pool::Config::default();
            cfg.max_idle_per_host = max_idle;
            let svc: ClientSvc = if pool_first {
                hyperdriver::Client::builder().with_protocol(HttpConnectionBuilder::<ChunkBody>::default()).with_pool(cfg).with_transport(transport).without_timeout().without_tls().with_body::<ChunkBody, Body>().build_service()
            } else {
                hyperdriver::Client::builder().with_protocol(HttpConnectionBuilder::<ChunkBody>::default()).with_transport(transport).with_pool(cfg).without_timeout().without_tls().with_body::<ChunkBody, Body>().build_service()
            };
            {
                let obs = obs.clone();
                s.spawn("caller", async move {
                    for id in [1u32, 2] {
                        do_request(svc.clone(), r(id, 'a', false, true, 1), obs.clone()).await;
                        // let the hand-back task run before the next request is issued
                        for _ in 0..4 {
                            yield_now().await;
                        }
                    }
                });
            }
            s.run();
            let ok = {
                let o = obs.lock().unwrap();
                [1u32, 2].iter().all(|id| matches!(o.responses.get(id), Some(Ok(_))))
            };
            let d = dials.load(std::sync::atomic::Ordering::SeqCst);
            s.teardown();
            drop((ca, cb));
            let want = if max_idle == 0 { 2 } else { 1 };
            let order = if pool_first { "with_pool before with_transport" } else { "with_transport before with_pool" };
            if !ok {
                viols.push((format!("builder-bound request-failed order={pool_first}"), format!("two sequential requests through a client built with {order}, max_idle_per_host={max_idle}: a request failed"), json!({"engine":"c15-builder","pool_first":pool_first,"max_idle":max_idle})));
            } else if d != want {
                viols.push((
                    format!("builder-bound-not-enforced max_idle={max_idle} pool_first={pool_first}"),
                    format!("client built with {order} and max_idle_per_host={max_idle}: two sequential HTTP/1.1 requests dialled {d} connection(s), the configured bound requires {want} ({})", if max_idle == 0 { "nothing may be kept idle" } else { "one idle connection is kept and reused" }),
                    json!({"engine":"c15-builder","pool_first":pool_first,"max_idle":max_idle}),
                ));
            }
        }
    }
    (n, viols)
}
