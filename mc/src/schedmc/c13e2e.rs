//! C13, part 3 — the stack as `Client::builder()` assembles it (not a hand-made copy of it): request sequences
//! through a complete client (redirect following, pool, host/h1/h2 layers, real hyper HTTP/1 connections) whose
//! transport hands out in-memory streams; a raw peer per connection records every byte and answers `200`
//! (or a redirect to another authority). What is compared is the request head on the wire.

use crate::det::Sched;
use hyperdriver::stream::duplex::DuplexStream;
use serde_json::json;
use std::sync::{Arc, Mutex};
use std::task::{Context, Poll};
use tokio::io::{AsyncReadExt, AsyncWriteExt};

type Conns = Arc<Mutex<Vec<(String, Arc<Mutex<Vec<u8>>>)>>>;

#[derive(Clone)]
struct Peers {
    exec: crate::det::Exec,
    /// (authority the connection was dialled for, raw bytes received)
    conns: Conns,
}
impl tower::Service<http::request::Parts> for Peers {
    type Response = DuplexStream;
    type Error = std::io::Error;
    type Future = std::future::Ready<Result<DuplexStream, std::io::Error>>;
    fn poll_ready(&mut self, _: &mut Context<'_>) -> Poll<Result<(), Self::Error>> {
        Poll::Ready(Ok(()))
    }
    fn call(&mut self, parts: http::request::Parts) -> Self::Future {
        use hyper::rt::Executor;
        let (near, mut far) = DuplexStream::new(16384);
        let raw = Arc::new(Mutex::new(Vec::new()));
        self.conns.lock().unwrap().push((parts.uri.authority().map(|a| a.to_string()).unwrap_or_default(), raw.clone()));
        self.exec.execute(async move {
            let mut pending = Vec::new();
            let mut buf = [0u8; 1024];
            loop {
                let n = match far.read(&mut buf).await {
                    Ok(0) | Err(_) => break,
                    Ok(n) => n,
                };
                raw.lock().unwrap().extend_from_slice(&buf[..n]);
                pending.extend_from_slice(&buf[..n]);
                while let Some(pos) = pending.windows(4).position(|w| w == b"\r\n\r\n") {
                    let head: Vec<u8> = pending.drain(..pos + 4).collect();
                    let head = String::from_utf8_lossy(&head).to_string();
                    let answer: &[u8] = if head.contains(" /redir") {
                        b"HTTP/1.1 302 Found\r\nlocation: http://b.test:8080/landing?x=1\r\ncontent-length: 0\r\n\r\n"
                    } else {
                        b"HTTP/1.1 200 OK\r\ncontent-length: 0\r\n\r\n"
                    };
                    if far.write_all(answer).await.is_err() {
                        return;
                    }
                }
            }
        });
        std::future::ready(Ok(near))
    }
}

#[derive(Clone, Debug)]
struct Step {
    uri: &'static str,
    version: http::Version,
    host: Option<&'static str>,
}

fn heads(raw: &[u8]) -> Vec<String> {
    let text = String::from_utf8_lossy(raw).to_string();
    text.split("\r\n\r\n").filter(|h| !h.trim().is_empty()).map(|h| h.to_string()).collect()
}

fn header<'a>(head: &'a str, name: &str) -> Vec<&'a str> {
    head.lines().skip(1).filter_map(|l| l.split_once(':')).filter(|(k, _)| k.eq_ignore_ascii_case(name)).map(|(_, v)| v.trim()).collect()
}

/// Returns (runs, violations).
pub fn builder_stack_runs() -> (u64, Vec<(String, String, serde_json::Value)>) {
    let mut n = 0;
    let mut out = vec![];
    let v10 = http::Version::HTTP_10;
    let v11 = http::Version::HTTP_11;
    let v2 = http::Version::HTTP_2;
    let mut seqs: Vec<(&'static str, bool, Vec<Step>)> = vec![];
    // single requests of every version over a client whose protocol only yields HTTP/1.1 connections
    for (name, ver) in [("h1only-v10", v10), ("h1only-v11", v11), ("h1only-v2", v2)] {
        seqs.push((name, true, vec![Step { uri: "http://a.test/p?x=1", version: ver, host: None }]));
    }
    seqs.push(("h1only-v2-own-host", true, vec![Step { uri: "http://a.test/p?x=1", version: v2, host: Some("other.test") }]));
    seqs.push(("h1only-v11-port", true, vec![Step { uri: "http://a.test:8080/p", version: v11, host: None }]));
    // a followed redirect to another authority: the second hop names the second authority
    for (name, h1only, ver) in [("redirect-auto-v11", false, v11), ("redirect-h1only-v11", true, v11), ("redirect-h1only-v2", true, v2), ("redirect-h1only-v10", true, v10)] {
        seqs.push((name, h1only, vec![Step { uri: "http://a.test/redir", version: ver, host: None }]));
    }
    // an HTTP/2-version request that rides the pooled idle HTTP/1.1 connection of an earlier request
    seqs.push(("auto-v11-then-v2-same-origin", false, vec![Step { uri: "http://a.test/one", version: v11, host: None }, Step { uri: "http://a.test/two?y=2", version: v2, host: None }]));
    seqs.push(("h1only-v2-then-v10-same-origin", true, vec![Step { uri: "http://a.test/one", version: v2, host: None }, Step { uri: "http://a.test/two?y=2", version: v10, host: None }]));
    for (name, h1only, steps) in seqs {
        n += 1;
        let mut s = Sched::new(vec![]);
        let conns: Conns = Default::default();
        let transport = Peers { exec: s.exec.clone(), conns: conns.clone() };
        let results: Arc<Mutex<Vec<String>>> = Default::default();
        let res2 = results.clone();
        let steps2 = steps.clone();
        macro_rules! drive {
            ($client:expr) => {{
                let mut client = $client;
                s.spawn("client", async move {
                    for st in steps2 {
                        let mut rb = http::Request::get(st.uri).version(st.version);
                        if let Some(h) = st.host {
                            rb = rb.header("host", h);
                        }
                        let req = rb.body(hyperdriver::Body::empty()).unwrap();
                        let r = client.request(req).await;
                        let text = match r {
                            Ok(resp) => {
                                let stc = resp.status();
                                let _ = http_body_util::BodyExt::collect(resp.into_body()).await;
                                format!("ok {stc}")
                            }
                            Err(e) => format!("err {e}"),
                        };
                        res2.lock().unwrap().push(text);
                        super::common::yield_now().await;
                        super::common::yield_now().await;
                    }
                });
            }};
        }
        let built = std::panic::catch_unwind(std::panic::AssertUnwindSafe(|| {
            if h1only {
                drive!(hyperdriver::Client::builder().with_protocol(hyper::client::conn::http1::Builder::new()).with_transport(transport).with_default_pool().without_timeout().with_standard_redirect_policy().without_tls().build());
            } else {
                drive!(hyperdriver::Client::builder().with_auto_http().with_transport(transport).with_default_pool().without_timeout().with_standard_redirect_policy().without_tls().build());
            }
        }));
        if built.is_err() {
            out.push((format!("builder-stack panic seq={name}"), "building the client panicked".into(), json!({"engine":"c13-builder"})));
            continue;
        }
        s.run();
        let panics = s.panics();
        s.teardown();
        for (t, p) in panics {
            out.push((format!("builder-stack panic seq={name}"), format!("task {t} panicked: {p}"), json!({"engine":"c13-builder"})));
        }
        let results = results.lock().unwrap().clone();
        if results.iter().any(|r| !r.starts_with("ok 200")) || results.len() != steps.len() {
            out.push((format!("builder-stack request-failed seq={name}"), format!("requests {steps:?} through the built client: {results:?}"), json!({"engine":"c13-builder"})));
            continue;
        }
        // what must have been written: one head per step (and per redirect hop), in order of sending
        let mut want: Vec<(String, String, String)> = vec![]; // (authority of the connection, request line, host)
        for st in &steps {
            let u: http::Uri = st.uri.parse().unwrap();
            let pq = u.path_and_query().map(|p| p.as_str()).unwrap_or("/");
            let auth = u.authority().unwrap().as_str().to_string();
            want.push((auth.clone(), format!("GET {pq} HTTP/1.1"), st.host.map(|h| h.to_string()).unwrap_or(auth)));
            if pq.starts_with("/redir") {
                want.push(("b.test:8080".into(), "GET /landing?x=1 HTTP/1.1".into(), st.host.map(|h| h.to_string()).unwrap_or("b.test:8080".into())));
            }
        }
        let conns = conns.lock().unwrap();
        let mut seen: Vec<(String, String)> = vec![]; // (authority, head)
        for (auth, raw) in conns.iter() {
            for h in heads(&raw.lock().unwrap()) {
                seen.push((auth.clone(), h));
            }
        }
        for (auth, line, host) in &want {
            let Some(pos) = seen.iter().position(|(a, h)| a == auth && h.lines().next() == Some(line.as_str())) else {
                out.push((
                    format!("builder-stack request-line seq={name}"),
                    format!("sequence {steps:?}: no request `{line}` reached a connection dialled for {auth}; on the wire: {:?}", seen.iter().map(|(a, h)| format!("[{a}] {}", h.lines().next().unwrap_or(""))).collect::<Vec<_>>()),
                    json!({"engine":"c13-builder"}),
                ));
                continue;
            };
            let (_, head) = seen.remove(pos);
            let hosts = header(&head, "host");
            if hosts.len() != 1 || !hosts[0].eq_ignore_ascii_case(host) {
                out.push((
                    format!("builder-stack host seq={name}"),
                    format!("sequence {steps:?}: `{line}` on the HTTP/1.1 connection to {auth} carries Host {hosts:?}, expected exactly one, {host:?}; head: {head:?}"),
                    json!({"engine":"c13-builder"}),
                ));
            }
        }
        if !seen.is_empty() {
            out.push((
                format!("builder-stack extra-request seq={name}"),
                format!("sequence {steps:?}: unexpected requests on the wire: {:?}", seen.iter().map(|(a, h)| format!("[{a}] {}", h.lines().next().unwrap_or(""))).collect::<Vec<_>>()),
                json!({"engine":"c13-builder"}),
            ));
        }
    }
    (n, out)
}
