//! Scripted inner stream: the explorer decides every environment answer.
//! Implements both tokio `AsyncRead/AsyncWrite` (`Sio`) and hyper `Read/Write` (`HSio`).

use hyperdriver::info::{ConnectionInfo, HasConnectionInfo};
use std::collections::VecDeque;
use std::fmt;
use std::io;
use std::pin::Pin;
use std::sync::{Arc, Mutex};
use std::task::{Context, Poll};

#[derive(Clone, Copy, Debug, PartialEq, Eq, Hash, PartialOrd, Ord)]
pub enum Ans {
    /// deliver up to n bytes of what the far side has sent (0 bytes available = EOF)
    Read(usize),
    ReadEof,
    /// accept up to n bytes
    Accept(usize),
    Ok,
    Pending,
    Err(io::ErrorKind),
}

#[derive(Clone, Debug, PartialEq, Eq)]
pub enum Call {
    Read { cap: usize, gave: usize },
    Write { offered: Vec<u8>, took: usize },
    WriteVectored { offered: Vec<Vec<u8>>, took: usize },
    Flush,
    Shutdown,
    Pending(&'static str),
    Err(&'static str),
}

#[derive(Debug, Default)]
pub struct Script {
    pub answers: VecDeque<Ans>,
    pub incoming: Vec<u8>,
    pub cursor: usize,
    pub received: Vec<u8>,
    pub calls: Vec<Call>,
    pub vectored: bool,
}

pub type Shared = Arc<Mutex<Script>>;

pub fn script(incoming: &[u8], vectored: bool) -> Shared {
    Arc::new(Mutex::new(Script {
        incoming: incoming.to_vec(),
        vectored,
        ..Default::default()
    }))
}

impl Script {
    /// Record a call; bounded, so that library code spinning on this stream cannot exhaust memory
    /// before the execution watchdog reports it.
    fn rec(&mut self, c: Call) {
        if self.calls.len() < 200_000 {
            self.calls.push(c);
        }
    }
    fn next(&mut self) -> Option<Ans> {
        self.answers.pop_front()
    }
    fn do_read(&mut self, cap: usize, mut put: impl FnMut(&[u8])) -> Poll<io::Result<()>> {
        let a = self.next().unwrap_or(Ans::Read(usize::MAX));
        match a {
            Ans::Pending => {
                self.rec(Call::Pending("read"));
                Poll::Pending
            }
            Ans::Err(k) => {
                self.rec(Call::Err("read"));
                Poll::Ready(Err(io::Error::from(k)))
            }
            Ans::ReadEof => {
                self.rec(Call::Read { cap, gave: 0 });
                self.cursor = self.incoming.len(); // the far side is gone; nothing more will come
                Poll::Ready(Ok(()))
            }
            Ans::Read(n) => {
                let avail = self.incoming.len() - self.cursor;
                let m = n.min(cap).min(avail);
                put(&self.incoming[self.cursor..self.cursor + m]);
                self.cursor += m;
                self.rec(Call::Read { cap, gave: m });
                Poll::Ready(Ok(()))
            }
            other => panic!("script: answer {other:?} given to a read"),
        }
    }
    fn do_write(&mut self, bufs: &[&[u8]], vectored_call: bool) -> Poll<io::Result<usize>> {
        let a = self.next().unwrap_or(Ans::Accept(usize::MAX));
        match a {
            Ans::Pending => {
                self.rec(Call::Pending("write"));
                Poll::Pending
            }
            Ans::Err(k) => {
                self.rec(Call::Err("write"));
                Poll::Ready(Err(io::Error::from(k)))
            }
            Ans::Accept(n) => {
                let all: Vec<u8> = bufs.iter().flat_map(|b| b.iter().copied()).collect();
                let m = n.min(all.len());
                self.received.extend_from_slice(&all[..m]);
                if vectored_call {
                    self.rec(Call::WriteVectored { offered: bufs.iter().map(|b| b.to_vec()).collect(), took: m });
                } else {
                    self.rec(Call::Write { offered: all, took: m });
                }
                Poll::Ready(Ok(m))
            }
            other => panic!("script: answer {other:?} given to a write"),
        }
    }
    fn do_simple(&mut self, what: &'static str) -> Poll<io::Result<()>> {
        let a = self.next().unwrap_or(Ans::Ok);
        match a {
            Ans::Pending => {
                self.rec(Call::Pending(what));
                Poll::Pending
            }
            Ans::Err(k) => {
                self.rec(Call::Err(what));
                Poll::Ready(Err(io::Error::from(k)))
            }
            Ans::Ok => {
                self.rec(if what == "flush" { Call::Flush } else { Call::Shutdown });
                Poll::Ready(Ok(()))
            }
            other => panic!("script: answer {other:?} given to {what}"),
        }
    }
}

#[derive(Debug, Clone, Default, PartialEq, Eq)]
pub struct SAddr;
impl fmt::Display for SAddr {
    fn fmt(&self, f: &mut fmt::Formatter<'_>) -> fmt::Result {
        write!(f, "scripted")
    }
}

/// tokio-flavoured scripted stream
#[derive(Debug)]
pub struct Sio(pub Shared);

impl HasConnectionInfo for Sio {
    type Addr = SAddr;
    fn info(&self) -> ConnectionInfo<SAddr> {
        ConnectionInfo::default()
    }
}

impl tokio::io::AsyncRead for Sio {
    fn poll_read(self: Pin<&mut Self>, _cx: &mut Context<'_>, buf: &mut tokio::io::ReadBuf<'_>) -> Poll<io::Result<()>> {
        let cap = buf.remaining();
        // like a zeroing reader, this one initialises the whole spare capacity and then fills only part of
        // it: whoever wraps it must go by `filled`, not by `initialized`
        buf.initialize_unfilled();
        self.0.lock().unwrap().do_read(cap, |b| buf.put_slice(b))
    }
}

impl tokio::io::AsyncWrite for Sio {
    fn poll_write(self: Pin<&mut Self>, _cx: &mut Context<'_>, buf: &[u8]) -> Poll<io::Result<usize>> {
        self.0.lock().unwrap().do_write(&[buf], false)
    }
    fn poll_flush(self: Pin<&mut Self>, _cx: &mut Context<'_>) -> Poll<io::Result<()>> {
        self.0.lock().unwrap().do_simple("flush")
    }
    fn poll_shutdown(self: Pin<&mut Self>, _cx: &mut Context<'_>) -> Poll<io::Result<()>> {
        self.0.lock().unwrap().do_simple("shutdown")
    }
    fn poll_write_vectored(self: Pin<&mut Self>, _cx: &mut Context<'_>, bufs: &[io::IoSlice<'_>]) -> Poll<io::Result<usize>> {
        let v: Vec<&[u8]> = bufs.iter().map(|b| &**b).collect();
        self.0.lock().unwrap().do_write(&v, true)
    }
    fn is_write_vectored(&self) -> bool {
        self.0.lock().unwrap().vectored
    }
}

/// hyper-flavoured scripted stream
#[derive(Debug)]
pub struct HSio(pub Shared);

impl hyper::rt::Read for HSio {
    fn poll_read(self: Pin<&mut Self>, _cx: &mut Context<'_>, mut buf: hyper::rt::ReadBufCursor<'_>) -> Poll<io::Result<()>> {
        let cap = buf.remaining();
        self.0.lock().unwrap().do_read(cap, |b| buf.put_slice(b))
    }
}

impl hyper::rt::Write for HSio {
    fn poll_write(self: Pin<&mut Self>, _cx: &mut Context<'_>, buf: &[u8]) -> Poll<io::Result<usize>> {
        self.0.lock().unwrap().do_write(&[buf], false)
    }
    fn poll_flush(self: Pin<&mut Self>, _cx: &mut Context<'_>) -> Poll<io::Result<()>> {
        self.0.lock().unwrap().do_simple("flush")
    }
    fn poll_shutdown(self: Pin<&mut Self>, _cx: &mut Context<'_>) -> Poll<io::Result<()>> {
        self.0.lock().unwrap().do_simple("shutdown")
    }
    fn poll_write_vectored(self: Pin<&mut Self>, _cx: &mut Context<'_>, bufs: &[io::IoSlice<'_>]) -> Poll<io::Result<usize>> {
        let v: Vec<&[u8]> = bufs.iter().map(|b| &**b).collect();
        self.0.lock().unwrap().do_write(&v, true)
    }
    fn is_write_vectored(&self) -> bool {
        self.0.lock().unwrap().vectored
    }
}

pub fn noop_cx_run<R>(f: impl FnOnce(&mut Context<'_>) -> R) -> R {
    let waker = futures_util::task::noop_waker();
    let mut cx = Context::from_waker(&waker);
    f(&mut cx)
}
