pub mod evidence;
pub mod props;
pub mod det;
pub mod poolmc;
pub mod schedmc;
pub mod sio;
