pub mod evidence;
pub mod props;
pub mod poolmc;
pub mod sio;
