pub mod evidence;
pub mod props;
