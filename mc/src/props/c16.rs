//! C16 — address preference sorting: bounded-exhaustive enumeration against a reference written
//! from the statement, plus a composition run through the public `connect_to_addrs`.

use crate::evidence::{Args, Run};
use hyperdriver::verif_hooks::{sort_preferred, IpVersion};
use serde_json::json;
use std::collections::BTreeSet;
use std::net::SocketAddr;

fn alphabet() -> [SocketAddr; 4] {
    [
        "10.0.0.1:1".parse().unwrap(),
        "10.0.0.2:2".parse().unwrap(),
        "[fd00::1]:3".parse().unwrap(),
        "[fd00::2]:4".parse().unwrap(),
    ]
}

/// Reference from the statement. Returns the expected output exactly: the statement fixes every position.
fn reference(input: &[SocketAddr], prefer: Option<IpVersion>, port: Option<u16>) -> Vec<SocketAddr> {
    let first_v4 = input.iter().position(|a| a.is_ipv4());
    let first_v6 = input.iter().position(|a| a.is_ipv6());
    // preferred family: IPv6 unless only an IPv4 local address is bound (preference V4)
    let (pref, other) = match prefer {
        Some(IpVersion::V4) => (first_v4, first_v6),
        _ => (first_v6, first_v4),
    };
    let mut out = vec![];
    let mut taken = BTreeSet::new();
    for idx in [pref, other].into_iter().flatten() {
        out.push(input[idx]);
        taken.insert(idx);
    }
    for (i, a) in input.iter().enumerate() {
        if !taken.contains(&i) {
            out.push(*a);
        }
    }
    if let Some(p) = port {
        for a in &mut out {
            a.set_port(p);
        }
    }
    out
}

fn pref_name(p: Option<IpVersion>) -> &'static str {
    match p {
        None => "none",
        Some(IpVersion::V4) => "v4",
        Some(IpVersion::V6) => "v6",
    }
}

fn replay(path: &str) -> i32 {
    let doc: serde_json::Value = serde_json::from_str(&std::fs::read_to_string(path).expect("replay file")).expect("json");
    let rp = doc.get("replay").cloned().unwrap_or(doc);
    let input: Vec<SocketAddr> = rp.get("input").and_then(|x| x.as_array()).map(|a| a.iter().filter_map(|x| x.as_str().and_then(|s| s.parse().ok())).collect()).unwrap_or_default();
    let prefer = match rp.get("prefer").and_then(|x| x.as_str()) {
        Some("v4") => Some(IpVersion::V4),
        Some("v6") => Some(IpVersion::V6),
        _ => None,
    };
    let port = rp.get("port").and_then(|x| x.as_u64()).map(|p| p as u16);
    let got = sort_preferred(input.clone(), prefer, port);
    let want = reference(&input, prefer, port);
    println!("input {input:?} prefer {} port {port:?}\n  got  {got:?}\n  want {want:?}", pref_name(prefer));
    if got == want {
        println!("replay holds");
        0
    } else {
        println!("VIOLATION property=C16 replay={path}");
        1
    }
}

pub fn run(args: &Args) -> i32 {
    if let Some(p) = &args.replay {
        return replay(p);
    }
    let mut run = Run::new("C16", args.tier, "model_checking");
    let alpha = alphabet();
    let max_len = if args.tier.is_thorough() { 10 } else { 8 };
    let prefs = [None, Some(IpVersion::V4), Some(IpVersion::V6)];
    let ports: &[Option<u16>] = &[None, Some(0), Some(80), Some(65535)];
    let mut evaluations: u64 = 0;
    let mut classes: BTreeSet<String> = BTreeSet::new();
    let mut samples = vec![];
    for len in 0..=max_len {
        let total = 4usize.pow(len as u32);
        for code in 0..total {
            let mut c = code;
            let input: Vec<SocketAddr> = (0..len)
                .map(|_| {
                    let a = alpha[c % 4];
                    c /= 4;
                    a
                })
                .collect();
            for &prefer in &prefs {
                // ports only matter for the rewrite; cross them in for short lists (complete), use one for long
                let port_set: &[Option<u16>] = if len <= 5 { ports } else { &ports[..2] };
                for &port in port_set {
                    evaluations += 1;
                    let got = sort_preferred(input.clone(), prefer, port);
                    let want = reference(&input, prefer, port);
                    // outcome class: (which families present, whether reordering happened, pref)
                    let moved = got.iter().map(|a| a.ip()).collect::<Vec<_>>()
                        != input.iter().map(|a| a.ip()).collect::<Vec<_>>();
                    let fam: String = input.iter().map(|a| if a.is_ipv4() { '4' } else { '6' }).collect();
                    if len <= 4 {
                        classes.insert(format!("{fam}|{}|{moved}|{}", pref_name(prefer), port.is_some()));
                    }
                    if samples.len() < 6 && len >= 3 && moved && code % 37 == 5 {
                        samples.push(json!({"input": input.iter().map(|a| a.to_string()).collect::<Vec<_>>(),
                            "prefer": pref_name(prefer), "port": port,
                            "output": got.iter().map(|a| a.to_string()).collect::<Vec<_>>() }));
                    }
                    if got != want {
                        // independent sub-oracles for a readable message
                        let mut a = got.iter().map(|x| x.ip()).collect::<Vec<_>>();
                        let mut b = input.iter().map(|x| x.ip()).collect::<Vec<_>>();
                        a.sort();
                        b.sort();
                        let what = if a != b {
                            "output is not a permutation of the resolver's answer"
                        } else if port.is_some() && got.iter().any(|x| Some(x.port()) != port) {
                            "an address does not carry the request port"
                        } else {
                            "order differs from: preferred family first, other family second, rest in resolver order"
                        };
                        let sig = format!("families={fam} prefer={} port={:?}", pref_name(prefer), port.is_some());
                        run.violation(
                            sig,
                            format!("{what}: input={input:?} prefer={} port={port:?} got={got:?} want={want:?}", pref_name(prefer)),
                            json!({"engine":"c16","input": input.iter().map(|a| a.to_string()).collect::<Vec<_>>(),
                                   "prefer": pref_name(prefer), "port": port}),
                        );
                    }
                }
            }
        }
    }
    // Composition: attempts are started in the resulting order. TcpTransport::connect_to_addrs pops
    // front-to-back into the EyeballSet (start order = queue order is C11 Q1). One-sided supplementary
    // run over real loopback sockets: the first address of the list must be the one connected when all accept.
    let comp = composition_run();
    match comp {
        Ok(n) => run.cov("composition_runs_real_sockets", n),
        Err(e) => {
            run.violation(
                "composition".into(),
                format!("connect_to_addrs did not connect to the first listed address: {e}"),
                json!({"engine":"c16","composition":true}),
            );
        }
    }
    run.cov("evaluations", evaluations);
    run.cov("distinct_nontrivial", classes.len() as u64);
    run.cov("rule", format!("all address lists of length 0..={max_len} over a 4-address alphabet (2 IPv4, 2 IPv6, duplicates allowed) x preference {{none,v4,v6}} x port {{none,0,80,65535}} (all four ports for len<=5, two beyond); a class is distinct by (family pattern of the list (len<=4), preference, whether the order changed, port rewrite)"));
    run.cov("exhaustive", true);
    run.cov("max_len", max_len as u64);
    run.cov("samples", samples);
    run.assume("reference: preferred family = IPv6 unless the preference is V4 (only an IPv4 local address bound)");
    run.assume("start order of attempts is decided by composition with C11 (Q1) and a supplementary real-socket run: every list of length 1..3 over two IPv4 and two IPv6 loopback listeners x every local-address binding {none, v4, v6, both} through TcpTransport::connect_to_addrs with one attempt at a time; the peer reached must be the address the statement puts first");
    run.finish()
}

fn composition_run() -> Result<u64, String> {
    use hyperdriver::client::conn::transport::tcp::TcpTransport;
    use hyperdriver::client::conn::transport::tcp::TcpTransportConfig;
    use std::net::{Ipv4Addr, Ipv6Addr};
    let rt = tokio::runtime::Builder::new_current_thread().enable_all().build().map_err(|e| e.to_string())?;
    rt.block_on(async {
        // listeners on the IPv4 and (when the host has one) the IPv6 loopback: whichever address the
        // statement puts first must be the peer we reach, for every local-address binding (the binding
        // decides the preferred family: IPv6 unless only an IPv4 local address is bound)
        let mut listeners = vec![];
        for _ in 0..2 {
            listeners.push(tokio::net::TcpListener::bind("127.0.0.1:0").await.map_err(|e| e.to_string())?);
        }
        let v6 = tokio::net::TcpListener::bind("[::1]:0").await.is_ok();
        if v6 {
            for _ in 0..2 {
                listeners.push(tokio::net::TcpListener::bind("[::1]:0").await.map_err(|e| e.to_string())?);
            }
        }
        let addrs: Vec<SocketAddr> = listeners.iter().map(|l| l.local_addr().unwrap()).collect();
        let bindings: Vec<(Option<Ipv4Addr>, Option<Ipv6Addr>)> = if v6 {
            vec![(None, None), (Some(Ipv4Addr::LOCALHOST), None), (None, Some(Ipv6Addr::LOCALHOST)), (Some(Ipv4Addr::LOCALHOST), Some(Ipv6Addr::LOCALHOST))]
        } else {
            vec![(None, None), (Some(Ipv4Addr::LOCALHOST), None)]
        };
        let k = addrs.len();
        let mut n = 0;
        for (b4, b6) in bindings {
            // the statement's rule, independent of the library's own mapping
            let prefer = if b4.is_some() && b6.is_none() { Some(IpVersion::V4) } else { Some(IpVersion::V6) };
            for len in 1..=3usize {
                for code in 0..k.pow(len as u32) {
                    let mut c = code;
                    let list: Vec<SocketAddr> = (0..len)
                        .map(|_| {
                            let a = addrs[c % k];
                            c /= k;
                            a
                        })
                        .collect();
                    let want = reference(&list, prefer, None);
                    let mut cfg = TcpTransportConfig::default();
                    cfg.happy_eyeballs_concurrency = Some(1);
                    cfg.local_address_ipv4 = b4;
                    cfg.local_address_ipv6 = b6;
                    let transport: TcpTransport = TcpTransport::builder().with_config(cfg).with_gai_resolver().build();
                    let stream = transport.connect_to_addrs(list.clone()).await.map_err(|e| format!("connect failed: {e} (list {list:?}, local addresses {b4:?}/{b6:?})"))?;
                    let peer = stream.peer_addr().map_err(|e| e.to_string())?;
                    if peer != want[0] {
                        return Err(format!("list {list:?} with local addresses bound v4={b4:?} v6={b6:?}: connected to {peer}, the statement puts {} first", want[0]));
                    }
                    n += 1;
                }
            }
        }
        // longer answers whose leading candidates fail (closed ports), so that candidates beyond the initial batch
        // are started: they too are started in the resulting order — the peer reached is the first address OF THE
        // SORTED LIST that accepts
        let mut closed = vec![];
        for _ in 0..2 {
            let l = std::net::TcpListener::bind("127.0.0.1:0").map_err(|e| e.to_string())?;
            closed.push(l.local_addr().unwrap());
        }
        let bindings2: Vec<(Option<Ipv4Addr>, Option<Ipv6Addr>)> = if v6 { vec![(None, None), (Some(Ipv4Addr::LOCALHOST), None)] } else { vec![(Some(Ipv4Addr::LOCALHOST), None)] };
        for (b4, b6) in bindings2 {
            let prefer = if b4.is_some() && b6.is_none() { Some(IpVersion::V4) } else { Some(IpVersion::V6) };
            for n_closed in 1..=2usize {
                for conc in [Some(1)] {
                    for i in 0..k {
                        for j in 0..k {
                            for l in 0..=k {
                                if i == j || l == i || l == j {
                                    continue;
                                }
                                let mut list: Vec<SocketAddr> = closed[..n_closed].to_vec();
                                list.push(addrs[i]);
                                list.push(addrs[j]);
                                if l < k {
                                    list.push(addrs[l]);
                                }
                                let want = reference(&list, prefer, None);
                                // with two attempts at a time the first two OPEN candidates may race when they are started
                                // together; only lists whose first batch holds at most one open candidate are decided
                                let first_open = want.iter().position(|a| !closed.contains(a)).unwrap();
                                if conc == Some(2) && first_open == 0 && !closed.contains(&want[1]) {
                                    continue;
                                }
                                let mut cfg = TcpTransportConfig::default();
                                cfg.happy_eyeballs_concurrency = conc;
                                cfg.local_address_ipv4 = b4;
                                cfg.local_address_ipv6 = b6;
                                let transport: TcpTransport = TcpTransport::builder().with_config(cfg).with_gai_resolver().build();
                                let stream = transport.connect_to_addrs(list.clone()).await.map_err(|e| format!("connect failed: {e} (list {list:?}, local addresses {b4:?}/{b6:?})"))?;
                                let peer = stream.peer_addr().map_err(|e| e.to_string())?;
                                if peer != want[first_open] {
                                    return Err(format!("list {list:?} ({n_closed} closed port(s) in front) with local addresses bound v4={b4:?} v6={b6:?}, {conc:?} attempt(s) at a time: connected to {peer}; the sorted order is {want:?}, its first candidate that accepts is {}", want[first_open]));
                                }
                                n += 1;
                            }
                        }
                    }
                }
            }
        }
        Ok(n)
    })
}
