//! E2 `hemc` — C10 / C11: the real `EyeballSet` in paused virtual time over a complete grid of
//! scripted attempts. One unit = 10 ms so tokio's 1 ms timer granularity never matters.

use crate::evidence::{n_threads, par_map, Args, Run};
use futures_util::FutureExt;
use hyperdriver::verif_hooks::{EyeballSet, HappyEyeballsError};
use serde_json::json;
use std::cell::RefCell;
use std::collections::BTreeSet;
use std::future::Future;
use std::pin::Pin;
use std::rc::Rc;
use std::task::{Context, Poll};
use std::time::Duration;

const UNIT_MS: u64 = 10;
/// Grid value for `Duration::MAX`.
pub const HUGE: u64 = u64::MAX;
const HORIZON: u64 = 1000;

#[derive(Clone, Copy, Debug, PartialEq, Eq, Hash, PartialOrd, Ord)]
pub enum Out {
    Ok,
    Err,
    Never,
}

#[derive(Clone, Debug)]
pub struct Config {
    pub attempts: Vec<(Out, u64)>,
    pub delay: Option<u64>,
    pub timeout: Option<u64>,
    pub concurrency: Option<usize>,
}

#[derive(Clone, Debug, PartialEq, Eq, Hash, PartialOrd, Ord)]
pub enum Res {
    Ok(usize),
    ErrInner(usize),
    Timeout,
    NoProgress,
    Hang,
    Panic(String),
}

#[derive(Clone, Debug, Default)]
struct Log {
    start: Vec<Option<u64>>,
    fin: Vec<Option<u64>>,
    dropped_at: Vec<Option<u64>>,
    polled_after_done: bool,
    polls_after_result: u32,
    result_seen: bool,
}

#[derive(Clone, Debug)]
pub struct Obs {
    pub start: Vec<Option<u64>>,
    pub fin: Vec<Option<u64>>,
    pub dropped_at: Vec<Option<u64>>,
    pub polled_after_done: bool,
    pub polls_after_result: u32,
    pub result: Res,
    pub t_r: u64,
}

struct Attempt {
    idx: usize,
    outcome: Out,
    latency: u64,
    base: tokio::time::Instant,
    log: Rc<RefCell<Log>>,
    sleep: Option<Pin<Box<tokio::time::Sleep>>>,
    done: bool,
}

fn units_since(base: tokio::time::Instant) -> u64 {
    let ms = tokio::time::Instant::now().duration_since(base).as_millis() as u64;
    assert!(ms % UNIT_MS == 0, "virtual time {ms}ms is off the unit grid");
    ms / UNIT_MS
}

impl Future for Attempt {
    type Output = Result<usize, usize>;
    fn poll(mut self: Pin<&mut Self>, cx: &mut Context<'_>) -> Poll<Self::Output> {
        let now = units_since(self.base);
        {
            let mut log = self.log.borrow_mut();
            if self.done {
                log.polled_after_done = true;
            }
            if log.result_seen {
                log.polls_after_result += 1;
            }
            if log.start[self.idx].is_none() {
                log.start[self.idx] = Some(now);
            }
        }
        if self.done {
            return Poll::Pending;
        }
        if self.sleep.is_none() {
            let lat = self.latency;
            self.sleep = Some(Box::pin(tokio::time::sleep(Duration::from_millis(lat * UNIT_MS))));
        }
        if self.outcome == Out::Never {
            return Poll::Pending;
        }
        match self.sleep.as_mut().unwrap().as_mut().poll(cx) {
            Poll::Pending => Poll::Pending,
            Poll::Ready(()) => {
                self.done = true;
                let now = units_since(self.base);
                self.log.borrow_mut().fin[self.idx] = Some(now);
                Poll::Ready(match self.outcome {
                    Out::Ok => Ok(self.idx),
                    _ => Err(self.idx),
                })
            }
        }
    }
}

impl Drop for Attempt {
    fn drop(&mut self) {
        let now = units_since(self.base);
        self.log.borrow_mut().dropped_at[self.idx] = Some(now);
    }
}

pub async fn run_config(cfg: &Config) -> Obs {
    let n = cfg.attempts.len();
    let base = tokio::time::Instant::now();
    let log = Rc::new(RefCell::new(Log {
        start: vec![None; n],
        fin: vec![None; n],
        dropped_at: vec![None; n],
        ..Default::default()
    }));
    // HUGE stands for a duration beyond any horizon ("effectively none", as callers write it)
    let d = |u: u64| if u == HUGE { Duration::MAX } else { Duration::from_millis(u * UNIT_MS) };
    let mut set: EyeballSet<Attempt, usize, usize> =
        EyeballSet::new(cfg.delay.map(d), cfg.timeout.map(d), cfg.concurrency);
    for (idx, (outcome, latency)) in cfg.attempts.iter().enumerate() {
        set.push(Attempt {
            idx,
            outcome: *outcome,
            latency: *latency,
            base,
            log: log.clone(),
            sleep: None,
            done: false,
        });
    }
    let fut = std::panic::AssertUnwindSafe(tokio::time::timeout(d(HORIZON), set.finish())).catch_unwind();
    let r = fut.await;
    let t_r = units_since(base);
    log.borrow_mut().result_seen = true;
    let result = match r {
        Err(p) => Res::Panic(
            p.downcast_ref::<&str>()
                .map(|s| s.to_string())
                .or_else(|| p.downcast_ref::<String>().cloned())
                .unwrap_or_default(),
        ),
        Ok(Err(_elapsed)) => Res::Hang,
        Ok(Ok(Ok(i))) => Res::Ok(i),
        Ok(Ok(Err(HappyEyeballsError::Error(i)))) => Res::ErrInner(i),
        Ok(Ok(Err(HappyEyeballsError::Timeout(_)))) => Res::Timeout,
        Ok(Ok(Err(HappyEyeballsError::NoProgress))) => Res::NoProgress,
        Ok(Ok(Err(_))) => Res::Panic("unknown error variant".into()),
    };
    // Let any stray wake-ups run at the same instant, then drop the set (the caller's drop).
    tokio::task::yield_now().await;
    drop(set);
    let l = log.borrow();
    Obs {
        start: l.start.clone(),
        fin: l.fin.clone(),
        dropped_at: l.dropped_at.clone(),
        polled_after_done: l.polled_after_done,
        polls_after_result: l.polls_after_result,
        result,
        t_r,
    }
}

/// C10 predicates P1..P7. Returns (predicate name, message) for the first failure.
/// Within the harness horizon a deadline of `Duration::MAX` is no deadline.
fn normalised(cfg: &Config) -> Config {
    let mut c = cfg.clone();
    if c.timeout == Some(HUGE) {
        c.timeout = None;
    }
    c
}

pub fn check_c10(cfg: &Config, o: &Obs) -> Option<(&'static str, String)> {
    let cfg = &normalised(cfg);
    let n = cfg.attempts.len();
    let t = cfg.timeout;
    let f = |i: usize| -> Option<u64> {
        // scripted finish time of a started attempt
        match (o.start[i], cfg.attempts[i].0) {
            (Some(s), Out::Ok | Out::Err) => Some(s + cfg.attempts[i].1),
            _ => None,
        }
    };
    if let Res::Panic(m) = &o.result {
        return Some(("P7", format!("panic: {m}")));
    }
    if n == 0 {
        if o.result != Res::NoProgress || o.t_r != 0 {
            return Some(("P1", format!("no candidates must fail immediately with NoProgress, got {:?} at t={}", o.result, o.t_r)));
        }
        return None;
    }
    let started_ok: Vec<usize> = (0..n).filter(|&i| o.start[i].is_some() && cfg.attempts[i].0 == Out::Ok).collect();
    // P3
    let some_ok_before_deadline = started_ok.iter().any(|&i| t.map(|t| f(i).unwrap() < t).unwrap_or(true));
    if some_ok_before_deadline && !matches!(o.result, Res::Ok(_)) {
        return Some(("P3", format!("a started candidate accepts before the deadline but the result is {:?}", o.result)));
    }
    match &o.result {
        Res::Ok(i) => {
            let i = *i;
            if o.start[i].is_none() || cfg.attempts[i].0 != Out::Ok {
                return Some(("P2", format!("Ok({i}) but that attempt was not a started success")));
            }
            let fi = f(i).unwrap();
            if o.t_r != fi {
                return Some(("P2", format!("Ok({i}) returned at t={} but the attempt finished at {fi}", o.t_r)));
            }
            if let Some(&j) = started_ok.iter().find(|&&j| f(j).unwrap() < fi) {
                return Some(("P2", format!("Ok({i}) at {fi} but attempt {j} succeeded earlier at {}", f(j).unwrap())));
            }
        }
        Res::ErrInner(e) => {
            if (0..n).any(|i| o.start[i].is_none()) {
                return Some(("P4", "failure reported before every candidate was tried".into()));
            }
            if (0..n).any(|i| cfg.attempts[i].0 != Out::Err) {
                return Some(("P4", "failure reported although a candidate did not fail".into()));
            }
            let fmax = (0..n).map(|i| f(i).unwrap()).max().unwrap();
            let fmin = (0..n).map(|i| f(i).unwrap()).min().unwrap();
            if o.t_r != fmax {
                return Some(("P4", format!("failure reported at t={} but the last candidate failed at {fmax}", o.t_r)));
            }
            if f(*e).unwrap() != fmin {
                return Some(("P4", format!("reported error of attempt {e} (failed at {}) is not the first failure (t={fmin})", f(*e).unwrap())));
            }
        }
        Res::Timeout => match t {
            None => return Some(("P5", "Timeout error without a configured deadline".into())),
            Some(t) => {
                if o.t_r < t {
                    return Some(("P5", format!("Timeout reported at t={} before the deadline {t}", o.t_r)));
                }
            }
        },
        Res::NoProgress => {
            return Some(("P1", "NoProgress although there were candidates".into()));
        }
        Res::Hang => {
            if t.is_some() {
                return Some(("P6", "no result although an overall deadline was configured".into()));
            }
            let some_never_started = (0..n).any(|i| o.start[i].is_some() && cfg.attempts[i].0 == Out::Never);
            if !some_never_started {
                return Some(("P6", "no result although every started candidate terminates".into()));
            }
        }
        Res::Panic(_) => unreachable!(),
    }
    None
}

/// C11 predicates Q1..Q5.
pub fn check_c11(cfg: &Config, o: &Obs) -> Option<(&'static str, String)> {
    let cfg = &normalised(cfg);
    let n = cfg.attempts.len();
    if let Res::Panic(m) = &o.result {
        return Some(("Q0", format!("panic: {m}")));
    }
    // Q1 order / at most once
    let k = o.start.iter().take_while(|s| s.is_some()).count();
    if o.start.iter().skip(k).any(|s| s.is_some()) {
        return Some(("Q1", format!("started attempts are not a prefix of the given order: {:?}", o.start)));
    }
    let s: Vec<u64> = o.start[..k].iter().map(|x| x.unwrap()).collect();
    if s.windows(2).any(|w| w[0] > w[1]) {
        return Some(("Q1", format!("start times are not in the given order: {s:?}")));
    }
    if o.polled_after_done {
        return Some(("Q1", "an attempt was polled again after it completed".into()));
    }
    if o.polls_after_result > 0 {
        return Some(("Q5", "an attempt was polled after the operation returned".into()));
    }
    let finished = !matches!(o.result, Res::Hang);
    let t_r = if finished { o.t_r } else { u64::MAX };
    // Q5 deadline
    if let Some(t) = cfg.timeout {
        if !finished || o.t_r > t {
            return Some(("Q5", format!("operation completed at {:?} after the overall deadline {t}", if finished { Some(o.t_r) } else { None })));
        }
    }
    if n == 0 {
        return None;
    }
    let free = match cfg.concurrency {
        None => n,
        Some(c) => c.max(1).min(n), // n=0 reading: the first attempt may start at once (DESIGN §8 C11)
    };
    let fail_time = |i: usize| -> Option<u64> {
        if cfg.attempts[i].0 == Out::Err {
            o.start[i].map(|s| s + cfg.attempts[i].1)
        } else {
            None
        }
    };
    // Q2 + Q3: every start beyond the free batch is justified by a stagger tick or an unconsumed failure
    let mut consumed = vec![false; n];
    for j in 0..k {
        if j < free {
            continue;
        }
        let stagger_ok = cfg.delay.map(|d| s[j] - s[j - 1] >= d).unwrap_or(false);
        if stagger_ok {
            continue;
        }
        // earliest unconsumed failure with f <= s_j among earlier attempts
        let cand = (0..j)
            .filter(|&i| !consumed[i])
            .filter_map(|i| fail_time(i).filter(|&f| f <= s[j]).map(|f| (f, i)))
            .min();
        match cand {
            Some((_, i)) => consumed[i] = true,
            None => {
                let q = if s[j] == 0 { "Q2" } else { "Q3" };
                return Some((q, format!("attempt {j} started at t={} without an elapsed stagger delay or a failed running attempt (starts {s:?}, concurrency {:?}, delay {:?})", s[j], cfg.concurrency, cfg.delay)));
            }
        }
    }
    // Q4a: the free batch starts at once (unless the operation already finished at t=0 before reaching it)
    for j in 0..free {
        match o.start[j] {
            Some(0) => {}
            Some(x) => return Some(("Q4", format!("initial attempt {j} started late at t={x}"))),
            None => {
                if !(finished && o.t_r == 0) {
                    return Some(("Q4", format!("initial attempt {j} never started although the operation did not finish at t=0")));
                }
            }
        }
    }
    // Q4b: stagger: while candidates remain, the next one starts no later than delay after the previous start
    if let Some(d) = cfg.delay {
        for j in free.max(1)..n {
            let Some(prev) = o.start[j - 1] else { break };
            let due = prev.saturating_add(d);
            match o.start[j] {
                Some(x) if x <= due => {}
                Some(x) => return Some(("Q4", format!("attempt {j} started at t={x}, later than the stagger tick at {due}"))),
                None => {
                    if t_r > due {
                        return Some(("Q4", format!("attempt {j} not started by the stagger tick at {due} although the operation ran until {:?}", if finished { Some(o.t_r) } else { None })));
                    }
                }
            }
        }
    }
    // Q4c: failures: by each failure time f (strictly before the end) at least free + #failures(<= f) attempts were started
    let mut fails: Vec<u64> = (0..n).filter_map(fail_time).collect();
    fails.sort();
    for (cnt, &f) in fails.iter().enumerate() {
        if f >= t_r {
            break;
        }
        // number of failures with f' <= f (handle ties: take the last index with the same f)
        let nf = fails.iter().filter(|&&x| x <= f).count().max(cnt + 1);
        let need = (free + nf).min(n);
        let started_by = s.iter().filter(|&&x| x <= f).count();
        if started_by < need {
            return Some(("Q4", format!("after the failure at t={f} only {started_by} attempts were started, expected at least {need} (starts {s:?})")));
        }
    }
    None
}

pub struct Grid {
    pub max_n: usize,
    pub lats: Vec<u64>,
    pub delays: Vec<Option<u64>>,
    pub timeouts: Vec<Option<u64>>,
}

impl Grid {
    pub fn new(tier_thorough: bool) -> Self {
        Grid {
            max_n: if tier_thorough { 5 } else { 4 },
            lats: if tier_thorough { vec![0, 1, 2, 3, 5, 8] } else { vec![0, 1, 2, 3, 5] },
            delays: vec![None, Some(0), Some(2), Some(HUGE)],
            timeouts: if tier_thorough { vec![None, Some(0), Some(2), Some(4), Some(7), Some(HUGE)] } else { vec![None, Some(0), Some(4), Some(HUGE)] },
        }
    }
    /// per-attempt alphabet: Ok x lats, Err x lats, Never (latency irrelevant)
    fn alphabet(&self) -> Vec<(Out, u64)> {
        let mut a = vec![];
        for &l in &self.lats {
            a.push((Out::Ok, l));
        }
        for &l in &self.lats {
            a.push((Out::Err, l));
        }
        a.push((Out::Never, 0));
        a
    }
    /// (n, code) work items; each expands to delays x timeouts x concurrency configs
    pub fn items(&self) -> Vec<(usize, usize)> {
        let per = self.alphabet().len();
        let mut v = vec![];
        for n in 0..=self.max_n {
            for code in 0..per.pow(n as u32) {
                v.push((n, code));
            }
        }
        v
    }
    pub fn expand(&self, n: usize, code: usize, mut f: impl FnMut(Config)) {
        let alpha = self.alphabet();
        let mut c = code;
        let attempts: Vec<(Out, u64)> = (0..n)
            .map(|_| {
                let x = c % alpha.len();
                c /= alpha.len();
                alpha[x]
            })
            .collect();
        for &delay in &self.delays {
            for &timeout in &self.timeouts {
                // none, 0..=n, and two bounds above the number of candidates (n+3 and usize::MAX):
                // "no more than the configured number" with a number that is never reached
                for ci in 0..(n + 4) {
                    let concurrency = match ci {
                        0 => None,
                        k if k == n + 2 => Some(n + 3),
                        k if k == n + 3 => Some(usize::MAX),
                        k => Some(k - 1),
                    };
                    f(Config {
                        attempts: attempts.clone(),
                        delay,
                        timeout,
                        concurrency,
                    });
                }
            }
        }
    }
}

fn cfg_json(c: &Config) -> serde_json::Value {
    json!({
        "attempts": c.attempts.iter().map(|(o, l)| json!([format!("{o:?}"), l])).collect::<Vec<_>>(),
        "delay": c.delay, "timeout": c.timeout, "concurrency": c.concurrency,
    })
}

pub fn cfg_from_json(v: &serde_json::Value) -> Option<Config> {
    let attempts = v.get("attempts")?.as_array()?.iter().map(|a| {
        let o = match a[0].as_str()? { "Ok" => Out::Ok, "Err" => Out::Err, _ => Out::Never };
        Some((o, a[1].as_u64()?))
    }).collect::<Option<Vec<_>>>()?;
    Some(Config {
        attempts,
        delay: v.get("delay")?.as_u64(),
        timeout: v.get("timeout")?.as_u64(),
        concurrency: v.get("concurrency")?.as_u64().map(|x| x as usize),
    })
}

fn signature(cfg: &Config, pred: &str) -> String {
    // class of the failing configuration: predicate + outcome multiset shape + which knobs are set
    let outs: String = cfg.attempts.iter().map(|(o, _)| match o { Out::Ok => 'o', Out::Err => 'e', Out::Never => 'n' }).collect();
    format!("pred={pred} outcomes={outs} delay={} timeout={} concurrency={}",
        match cfg.delay { None => "none", Some(0) => "zero", _ => "finite" },
        match cfg.timeout { None => "none", Some(0) => "zero", _ => "finite" },
        match cfg.concurrency { None => "none".to_string(), Some(c) => c.to_string() })
}

pub fn run(args: &Args, which: &str) -> i32 {
    let mut run = Run::new(which, args.tier, "model_checking");
    std::panic::set_hook(Box::new(|_| {}));
    if let Some(path) = &args.replay {
        return replay(path, which);
    }
    let grid = Grid::new(args.tier.is_thorough());
    let items = grid.items();
    let threads = n_threads();
    let chunk = ((items.len() + threads * 16 - 1) / (threads * 16)).max(1);
    let chunks: Vec<&[(usize, usize)]> = items.chunks(chunk).collect();
    let which_s = which.to_string();
    let results = par_map(chunks.len(), threads, |ci| {
        let rt = tokio::runtime::Builder::new_current_thread()
            .enable_time()
            .start_paused(true)
            .build()
            .unwrap();
        let mut viol = vec![];
        let mut traces: BTreeSet<(Vec<Option<u64>>, Res, u64)> = BTreeSet::new();
        let mut sample = None;
        let mut count = 0u64;
        let current: std::sync::Arc<std::sync::Mutex<Option<_>>> = std::sync::Arc::new(std::sync::Mutex::new(None));
        let cur2 = current.clone();
        let _g = crate::evidence::watchdog::enter(move || match cur2.lock().unwrap().as_ref() {
            Some(c) => json!({"engine":"hemc","config": cfg_json(c)}),
            None => json!({"engine":"hemc"}),
        });
        rt.block_on(async {
            for &(n, code) in chunks[ci] {
                let mut cfgs = vec![];
                grid.expand(n, code, |c| cfgs.push(c));
                for cfg in &cfgs {
                    count += 1;
                    *current.lock().unwrap() = Some(cfg.clone());
                    crate::evidence::watchdog::touch();
                    let obs = run_config(cfg).await;
                    if count % 64 == 7 {
                        // determinism audit: the same configuration again must give the same observation
                        let again = run_config(cfg).await;
                        crate::det::AUDITS.fetch_add(1, std::sync::atomic::Ordering::Relaxed);
                        if format!("{again:?}") != format!("{obs:?}") {
                            println!("MACHINERY-ERROR nondeterministic virtual-time execution: config {} gave {obs:?} and then {again:?}", cfg_json(cfg));
                            std::process::exit(2);
                        }
                    }
                    let r = if which_s == "C10" { check_c10(cfg, &obs) } else { check_c11(cfg, &obs) };
                    if cfg.attempts.len() >= 2 {
                        traces.insert((obs.start.clone(), obs.result.clone(), obs.t_r));
                        if sample.is_none() && cfg.attempts.len() >= 3 && cfg.delay == Some(2) && cfg.concurrency == Some(1) && obs.start.iter().filter(|s| s.is_some()).count() >= 3 {
                            sample = Some(json!({"config": cfg_json(cfg), "start_times": obs.start, "result": format!("{:?}", obs.result), "t_result": obs.t_r}));
                        }
                    }
                    if let Some((pred, msg)) = r {
                        if viol.len() < 50 {
                            viol.push((cfg.clone(), pred, msg, format!("{obs:?}")));
                        }
                    }
                }
            }
        });
        (viol, traces, sample, count)
    });
    let mut evaluations = 0u64;
    let mut all_traces: BTreeSet<(Vec<Option<u64>>, Res, u64)> = BTreeSet::new();
    let mut samples = vec![];
    for (viol, traces, sample, count) in results {
        evaluations += count;
        all_traces.extend(traces);
        if let Some(s) = sample {
            if samples.len() < 4 {
                samples.push(s);
            }
        }
        for (cfg, pred, msg, obs) in viol {
            run.violation(signature(&cfg, pred), format!("{pred}: {msg}; config={:?}; observed={obs}", cfg_json(&cfg).to_string()), json!({"engine":"hemc","config": cfg_json(&cfg)}));
        }
    }
    if which == "C10" {
        match tcp_mapping_run() {
            Ok(n) => run.cov("tcp_mapping_runs_real_sockets", n),
            Err(e) => run.violation("tcp-mapping".into(), e, json!({"engine":"hemc","tcp_mapping":true})),
        }
    }
    let _ = std::panic::take_hook();
    run.cov("evaluations", evaluations);
    run.cov("distinct_nontrivial", all_traces.len() as u64);
    run.cov("rule", format!("full grid: N=0..={} attempts x outcome{{ok,err,never}} x latency grid x stagger delay{{none,0,2}} x overall timeout grid x initial concurrency{{none,0,1..N,N+3,usize::MAX}}, each executed on the real EyeballSet in paused virtual time (unit 10ms); distinct = distinct (start-time vector, result, completion time) among configurations with N>=2", grid.max_n));
    run.cov("exhaustive", true);
    run.cov("samples", samples);
    run.assume("virtual time: tokio paused clock; timer granularity below 10ms is outside the model");
    run.assume("ties (events at the same virtual instant) are don't-care where the statement does not order them");
    if which == "C11" {
        run.assume("initial concurrency 0 is read as: the first attempt may start at once (nothing is running whose outcome could be awaited)");
    }
    run.finish()
}

fn replay(path: &str, which: &str) -> i32 {
    let text = std::fs::read_to_string(path).expect("replay file");
    let v: serde_json::Value = serde_json::from_str(&text).expect("json");
    let Some(cfg) = v.get("replay").and_then(|r| r.get("config")).and_then(cfg_from_json) else {
        eprintln!("MACHINERY-ERROR replay file has no config");
        return 2;
    };
    let rt = tokio::runtime::Builder::new_current_thread().enable_time().start_paused(true).build().unwrap();
    let obs1 = rt.block_on(run_config(&cfg));
    let obs2 = rt.block_on(run_config(&cfg));
    if format!("{obs1:?}") != format!("{obs2:?}") {
        println!("MACHINERY-ERROR replay diverged");
        return 2;
    }
    let r = if which == "C10" { check_c10(&cfg, &obs1) } else { check_c11(&cfg, &obs1) };
    println!("config={cfg:?}\nobserved={obs1:?}");
    match r {
        Some((p, m)) => {
            println!("VIOLATION property={which} replay={path}\n  {p}: {m}");
            1
        }
        None => {
            println!("replay holds");
            0
        }
    }
}

/// Supplementary, one-sided: error mapping and delay derivation in `TcpConnecting::connect` through the
/// public `connect_to_addrs` against open / closed loopback ports (real sockets; no schedule control).
fn tcp_mapping_run() -> Result<u64, String> {
    use hyperdriver::client::conn::transport::tcp::{TcpTransport, TcpTransportConfig};
    let rt = tokio::runtime::Builder::new_current_thread().enable_all().build().map_err(|e| e.to_string())?;
    rt.block_on(async {
        let open = tokio::net::TcpListener::bind("127.0.0.1:0").await.map_err(|e| e.to_string())?;
        let open_addr = open.local_addr().unwrap();
        // closed ports: bind then drop
        let mut closed = vec![];
        for _ in 0..2 {
            let l = std::net::TcpListener::bind("127.0.0.1:0").map_err(|e| e.to_string())?;
            closed.push(l.local_addr().unwrap());
        }
        let mut n = 0;
        for len in 0..=3usize {
            for code in 0..(2usize.pow(len as u32)) {
                let addrs: Vec<std::net::SocketAddr> = (0..len).map(|i| if (code >> i) & 1 == 1 { open_addr } else { closed[i % 2] }).collect();
                for conc in [None, Some(1), Some(2)] {
                    let mut cfg = TcpTransportConfig::default();
                    cfg.happy_eyeballs_concurrency = conc;
                    cfg.happy_eyeballs_timeout = Some(Duration::from_secs(5));
                    let transport: TcpTransport = TcpTransport::builder().with_config(cfg).with_gai_resolver().build();
                    let r = tokio::time::timeout(Duration::from_secs(20), transport.connect_to_addrs(addrs.clone())).await.map_err(|_| format!("connect_to_addrs({addrs:?}) hung"))?;
                    let any_open = addrs.contains(&open_addr);
                    if r.is_ok() != any_open {
                        return Err(format!("connect_to_addrs({addrs:?}, concurrency {conc:?}) = {:?}, expected success={any_open}", r.map(|_| ())));
                    }
                    n += 1;
                }
            }
        }
        // candidates that fail before any connect is attempted (the local source address of their family
        // cannot be bound): that is a failed candidate like any other — the others are still tried
        let v6 = tokio::net::TcpListener::bind("[::1]:0").await.map_err(|e| e.to_string())?;
        let v6_addr = v6.local_addr().unwrap();
        for addrs in [vec![v6_addr, open_addr], vec![open_addr, v6_addr], vec![v6_addr, closed[0], open_addr], vec![v6_addr, closed[0]]] {
            for conc in [None, Some(1), Some(2)] {
                let mut cfg = TcpTransportConfig::default();
                cfg.happy_eyeballs_concurrency = conc;
                cfg.happy_eyeballs_timeout = Some(Duration::from_secs(5));
                // 2001:db8::/32 is the documentation prefix: no interface has it
                cfg.local_address_ipv6 = Some("2001:db8::1".parse().unwrap());
                let transport: TcpTransport = TcpTransport::builder().with_config(cfg).with_gai_resolver().build();
                let r = tokio::time::timeout(Duration::from_secs(20), transport.connect_to_addrs(addrs.clone())).await.map_err(|_| format!("connect_to_addrs({addrs:?}) hung"))?;
                let any_open = addrs.contains(&open_addr);
                if r.is_ok() != any_open {
                    return Err(format!("connect_to_addrs({addrs:?}, concurrency {conc:?}, unbindable IPv6 source address) = {:?}, expected success={any_open}: a candidate that cannot even be set up is one failed candidate", r.map(|_| ())));
                }
                n += 1;
            }
        }
        // a candidate that neither succeeds nor fails (a loopback listener whose accept queue is full: further SYNs
        // are dropped): the overall deadline ends the operation — also when that candidate is the only one, and
        // whatever the per-attempt timeout is
        if let Some((_l, _fillers, hole)) = black_hole().await {
            for addrs in [vec![hole], vec![hole, hole], vec![closed[0], hole]] {
                for conc in [None, Some(1)] {
                    for attempt_timeout in [None, Some(Duration::from_secs(4))] {
                        let mut cfg = TcpTransportConfig::default();
                        cfg.happy_eyeballs_concurrency = conc;
                        cfg.happy_eyeballs_timeout = Some(Duration::from_millis(300));
                        cfg.connect_timeout = attempt_timeout;
                        let transport: TcpTransport = TcpTransport::builder().with_config(cfg).with_gai_resolver().build();
                        let t0 = std::time::Instant::now();
                        let r = tokio::time::timeout(Duration::from_millis(2500), transport.connect_to_addrs(addrs.clone())).await;
                        let el = t0.elapsed();
                        match r {
                            Ok(Err(_)) if el >= Duration::from_millis(280) => {}
                            other => {
                                return Err(format!(
                                    "connect_to_addrs({} candidate(s), the last one never completes; overall deadline 300ms, per-attempt timeout {attempt_timeout:?}, concurrency {conc:?}) = {} after {el:?}: the operation must fail at the overall deadline",
                                    addrs.len(),
                                    match other { Ok(Ok(_)) => "Ok".to_string(), Ok(Err(e)) => format!("Err({e})"), Err(_) => "still pending after 2.5s".to_string() }
                                ));
                            }
                        }
                        n += 1;
                    }
                }
            }
        }
        Ok(n)
    })
}

/// A loopback listener whose accept queue is full, so that further connection attempts hang (Linux drops the SYN).
/// `None` if this platform does not behave that way.
async fn black_hole() -> Option<(tokio::net::TcpListener, Vec<tokio::net::TcpStream>, std::net::SocketAddr)> {
    let socket = tokio::net::TcpSocket::new_v4().ok()?;
    socket.bind((std::net::Ipv4Addr::LOCALHOST, 0).into()).ok()?;
    let listener = socket.listen(1).ok()?;
    let addr = listener.local_addr().ok()?;
    let mut fillers = Vec::new();
    for _ in 0..8 {
        match tokio::time::timeout(Duration::from_millis(150), tokio::net::TcpStream::connect(addr)).await {
            Ok(Ok(s)) => fillers.push(s),
            Ok(Err(_)) => return None,
            Err(_) => break,
        }
    }
    for _ in 0..2 {
        if tokio::time::timeout(Duration::from_millis(250), tokio::net::TcpStream::connect(addr)).await.is_ok() {
            return None;
        }
    }
    Some((listener, fillers, addr))
}
