//! C13 — the request put on the wire matches the connection's protocol.
//! Part 1: the real layer stack (SetHostHeader -> Http2Checks -> Http1Checks, the order used by
//! `Builder::build_service`) around a recording service, full cross product of a request grammar.
//! Part 2: the real `HttpConnectionBuilder` + `RequestExecutor` over an in-memory stream with a
//! scripted ALPN answer; the bytes that reach the peer are inspected.

use crate::det::Sched;
use crate::evidence::{Args, Run};
use futures_util::FutureExt;
use hyperdriver::client::conn::protocol::auto::HttpConnectionBuilder;
use hyperdriver::client::conn::protocol::HttpProtocol;
use hyperdriver::client::conn::{Connection, Protocol};
use hyperdriver::info::{ConnectionInfo, HasConnectionInfo, HasTlsConnectionInfo, TlsConnectionInfo};
use hyperdriver::service::{ExecuteRequest, Http1ChecksLayer, Http2ChecksLayer, RequestExecutor, SetHostHeaderLayer};
use hyperdriver::Body;
use serde_json::json;
use std::collections::BTreeSet;
use std::pin::Pin;
use std::sync::{Arc, Mutex};
use std::task::{Context, Poll};
use tower::{Layer, Service};

struct StubConn(http::Version);
#[derive(Debug)]
struct StubErr;
impl std::fmt::Display for StubErr {
    fn fmt(&self, f: &mut std::fmt::Formatter<'_>) -> std::fmt::Result {
        write!(f, "stub")
    }
}
impl std::error::Error for StubErr {}
impl Connection<Body> for StubConn {
    type ResBody = Body;
    type Error = StubErr;
    type Future = std::future::Ready<Result<http::Response<Body>, StubErr>>;
    fn send_request(&mut self, _: http::Request<Body>) -> Self::Future {
        std::future::ready(Ok(http::Response::new(Body::empty())))
    }
    fn poll_ready(&mut self, _: &mut Context<'_>) -> Poll<Result<(), StubErr>> {
        Poll::Ready(Ok(()))
    }
    fn version(&self) -> http::Version {
        self.0
    }
}

#[derive(Clone)]
struct Rec(Arc<Mutex<Option<http::request::Parts>>>);
impl Service<ExecuteRequest<StubConn, Body>> for Rec {
    type Response = http::Response<Body>;
    type Error = hyperdriver::client::Error;
    type Future = std::future::Ready<Result<http::Response<Body>, hyperdriver::client::Error>>;
    fn poll_ready(&mut self, _: &mut Context<'_>) -> Poll<Result<(), Self::Error>> {
        Poll::Ready(Ok(()))
    }
    fn call(&mut self, req: ExecuteRequest<StubConn, Body>) -> Self::Future {
        let (_, r) = req.into_parts();
        *self.0.lock().unwrap() = Some(r.into_parts().0);
        std::future::ready(Ok(http::Response::new(Body::empty())))
    }
}

#[derive(Clone, Debug)]
pub struct Case {
    pub scheme: &'static str,
    pub host: &'static str,
    pub port: Option<u16>,
    pub path: &'static str,
    pub query: Option<&'static str>,
    pub method: &'static str,
    pub req_version: http::Version,
    /// 0 none, 1 caller's Host, 2 connection-specific headers + an ordinary one
    pub preset: u8,
}

impl Case {
    fn uri(&self) -> String {
        let mut s = format!("{}://{}", self.scheme, self.host);
        if let Some(p) = self.port {
            s.push_str(&format!(":{p}"));
        }
        s.push_str(self.path);
        if let Some(q) = self.query {
            s.push('?');
            s.push_str(q);
        }
        s
    }
    fn request(&self) -> http::Request<Body> {
        let mut b = http::Request::builder().method(self.method).uri(self.uri()).version(self.req_version);
        match self.preset {
            1 => b = b.header("host", "caller.test"),
            2 => {
                b = b
                    .header("connection", "keep-alive, upgrade")
                    .header("keep-alive", "timeout=5")
                    .header("proxy-connection", "keep-alive")
                    .header("transfer-encoding", "chunked")
                    .header("upgrade", "h2c")
                    .header("x-keep", "1");
            }
            _ => {}
        }
        b.body(Body::empty()).unwrap()
    }
    fn default_port(&self) -> u16 {
        // schemes are case-insensitive
        if self.scheme.eq_ignore_ascii_case("https") || self.scheme.eq_ignore_ascii_case("wss") {
            443
        } else {
            80
        }
    }
    /// Reference: the Host value an HTTP/1 connection must carry.
    fn want_host(&self) -> String {
        if self.preset == 1 {
            return "caller.test".into();
        }
        match self.port {
            Some(p) if p != self.default_port() => format!("{}:{p}", self.bare_host()),
            _ => self.bare_host().to_string(),
        }
    }
    /// The URI host without user information.
    fn bare_host(&self) -> &str {
        self.host.rsplit('@').next().unwrap_or(self.host)
    }
    fn want_path(&self) -> &str {
        if self.path.is_empty() {
            "/"
        } else {
            self.path
        }
    }
}

pub fn grammar() -> Vec<Case> {
    let mut v = vec![];
    for scheme in ["http", "https", "ws", "wss", "WSS", "HTTPS"] {
        for host in ["example.com", "127.0.0.1", "[::1]", "EXAMPLE.com", "user:pw@example.com", "u@[::1]"] {
            for port in [None, Some(80u16), Some(443), Some(8080)] {
                for path in ["", "/", "/a/b", "/a%20b", "//x"] {
                    for query in [None, Some(""), Some("q=1&r=2")] {
                        for method in ["GET", "POST", "HEAD", "OPTIONS", "CONNECT", "PURGE"] {
                            for req_version in [http::Version::HTTP_10, http::Version::HTTP_11, http::Version::HTTP_2] {
                                for preset in 0..3u8 {
                                    v.push(Case { scheme, host, port, path, query, method, req_version, preset });
                                }
                            }
                        }
                    }
                }
            }
        }
    }
    v
}

const CONN_HEADERS: [&str; 5] = ["connection", "proxy-connection", "keep-alive", "transfer-encoding", "upgrade"];

fn check_part1(c: &Case, conn_version: http::Version) -> Result<String, (String, String)> {
    let rec = Rec(Arc::new(Mutex::new(None)));
    let mut svc = SetHostHeaderLayer::new().layer(Http2ChecksLayer::new().layer(Http1ChecksLayer::new().layer(rec.clone())));
    let er = ExecuteRequest::new(StubConn(conn_version), c.request());
    let out = std::panic::catch_unwind(std::panic::AssertUnwindSafe(|| svc.call(er).now_or_never()));
    let out = match out {
        Err(_) => return Err(("panic".into(), "the layer stack panicked".into())),
        Ok(None) => return Err(("not-ready".into(), "the layer stack did not resolve".into())),
        Ok(Some(r)) => r,
    };
    let seen = rec.0.lock().unwrap().take();
    let h2 = conn_version == http::Version::HTTP_2;
    if h2 && c.method == "CONNECT" {
        return match out {
            Err(_) if seen.is_none() => Ok("h2-connect-rejected".into()),
            _ => Err(("h2-connect-not-rejected".into(), "CONNECT on an HTTP/2 connection was not rejected with an error".into())),
        };
    }
    let Some(p) = seen else {
        return Err(("rejected".into(), format!("request was rejected: {:?}", out.err().map(|e| e.to_string()))));
    };
    if h2 {
        if p.version != http::Version::HTTP_2 {
            return Err(("h2-version".into(), format!("version on an HTTP/2 connection is {:?}", p.version)));
        }
        for h in CONN_HEADERS.iter().chain(["host"].iter()) {
            if p.headers.contains_key(*h) {
                return Err(("h2-connection-header-kept".into(), format!("header {h} was not removed on an HTTP/2 connection")));
            }
        }
        if c.preset == 2 && p.headers.get("x-keep").map(|v| v.as_bytes()) != Some(b"1") {
            return Err(("h2-header-lost".into(), "an ordinary header was removed".into()));
        }
        return Ok("h2-sanitised".into());
    }
    // HTTP/1 connection
    if c.method == "CONNECT" {
        let want_auth = match c.port {
            Some(p) => format!("{}:{p}", c.host),
            None => c.host.to_string(),
        };
        // user information in a CONNECT target is not addressed by the statement: compare host and port only
        let auth_ok = if c.host.contains('@') {
            p.uri.host() == Some(c.bare_host()) && p.uri.port_u16() == c.port
        } else {
            p.uri.authority().map(|a| a.as_str().to_string()) == Some(want_auth.clone())
        };
        if p.uri.scheme().is_some() || !auth_ok || p.uri.path_and_query().map(|pq| pq.as_str()).unwrap_or("") != "" && p.uri.path_and_query().map(|pq| pq.as_str()) != Some("/") && false {
            return Err(("h1-connect-target".into(), format!("CONNECT target is {:?}, expected authority-form {want_auth}", p.uri.to_string())));
        }
    } else {
        if p.uri.scheme().is_some() || p.uri.authority().is_some() {
            return Err(("h1-target-not-origin-form".into(), format!("request target {:?} still carries scheme/authority", p.uri.to_string())));
        }
        if p.uri.path() != c.want_path() || p.uri.query() != c.query {
            return Err(("h1-target-altered".into(), format!("request target path {:?} query {:?}, expected {:?} {:?}", p.uri.path(), p.uri.query(), c.want_path(), c.query)));
        }
    }
    let hosts: Vec<_> = p.headers.get_all("host").iter().collect();
    if hosts.len() != 1 || hosts[0].as_bytes() != c.want_host().as_bytes() {
        return Err(("h1-host".into(), format!("Host header {:?}, expected {:?}", hosts, c.want_host())));
    }
    if c.preset == 2 && !CONN_HEADERS.iter().all(|h| p.headers.contains_key(*h)) {
        return Err(("h1-header-lost".into(), "a header was removed on an HTTP/1 connection".into()));
    }
    Ok(if c.method == "CONNECT" { "h1-authority-form".into() } else { format!("h1-origin-form-{}", c.preset) })
}

// -------------------------------------------------------------------------------------------------
// Part 2: onto the wire

struct AlpnIo {
    inner: tokio::io::DuplexStream,
    tls: Option<TlsConnectionInfo>,
}
impl HasConnectionInfo for AlpnIo {
    type Addr = crate::sio::SAddr;
    fn info(&self) -> ConnectionInfo<Self::Addr> {
        ConnectionInfo::default()
    }
}
impl HasTlsConnectionInfo for AlpnIo {
    fn tls_info(&self) -> Option<&TlsConnectionInfo> {
        self.tls.as_ref()
    }
}
impl tokio::io::AsyncRead for AlpnIo {
    fn poll_read(mut self: Pin<&mut Self>, cx: &mut Context<'_>, buf: &mut tokio::io::ReadBuf<'_>) -> Poll<std::io::Result<()>> {
        Pin::new(&mut self.inner).poll_read(cx, buf)
    }
}
impl tokio::io::AsyncWrite for AlpnIo {
    fn poll_write(mut self: Pin<&mut Self>, cx: &mut Context<'_>, buf: &[u8]) -> Poll<std::io::Result<usize>> {
        Pin::new(&mut self.inner).poll_write(cx, buf)
    }
    fn poll_flush(mut self: Pin<&mut Self>, cx: &mut Context<'_>) -> Poll<std::io::Result<()>> {
        Pin::new(&mut self.inner).poll_flush(cx)
    }
    fn poll_shutdown(mut self: Pin<&mut Self>, cx: &mut Context<'_>) -> Poll<std::io::Result<()>> {
        Pin::new(&mut self.inner).poll_shutdown(cx)
    }
}

#[derive(Clone, Copy, Debug, PartialEq, Eq)]
pub enum Alpn {
    NoTls,
    TlsNone,
    H2,
    Http11,
}

fn wire_case(c: &Case, alpn: Alpn) -> Result<String, (String, String)> {
    use tokio::io::AsyncReadExt;
    let mut s = Sched::new(vec![]);
    let (near, mut far) = tokio::io::duplex(65536);
    let tls = match alpn {
        Alpn::NoTls => None,
        Alpn::TlsNone => Some(TlsConnectionInfo::default()),
        Alpn::H2 => Some(TlsConnectionInfo { alpn: Some(hyperdriver::info::Protocol::Http(http::Version::HTTP_2)), ..Default::default() }),
        Alpn::Http11 => Some(TlsConnectionInfo { alpn: Some(hyperdriver::info::Protocol::Http(http::Version::HTTP_11)), ..Default::default() }),
    };
    let io = AlpnIo { inner: near, tls };
    let requested: HttpProtocol = if c.req_version == http::Version::HTTP_2 { HttpProtocol::Http2 } else { HttpProtocol::Http1 };
    let req = c.request();
    let result: Arc<Mutex<Option<String>>> = Arc::new(Mutex::new(None));
    let r2 = result.clone();
    s.spawn("client", async move {
        let mut builder = HttpConnectionBuilder::<Body>::default();
        let conn = match Protocol::connect(&mut builder, io, requested).await {
            Ok(c) => c,
            Err(e) => {
                *r2.lock().unwrap() = Some(format!("handshake-error: {e}"));
                return;
            }
        };
        let version = conn.version();
        let mut svc = SetHostHeaderLayer::new().layer(Http2ChecksLayer::new().layer(Http1ChecksLayer::new().layer(RequestExecutor::new())));
        let fut = svc.call(ExecuteRequest::new(conn, req));
        *r2.lock().unwrap() = Some(format!("connected {version:?}"));
        let _ = fut.await; // never answered: the peer is only a recorder
    });
    // peer: record everything the client writes
    let captured: Arc<Mutex<Vec<u8>>> = Arc::new(Mutex::new(vec![]));
    let cap2 = captured.clone();
    s.spawn("peer", async move {
        let mut buf = [0u8; 4096];
        loop {
            match far.read(&mut buf).await {
                Ok(0) | Err(_) => break,
                Ok(n) => cap2.lock().unwrap().extend_from_slice(&buf[..n]),
            }
        }
    });
    s.run();
    let panics = s.panics();
    let bytes = captured.lock().unwrap().clone();
    let res = result.lock().unwrap().clone();
    s.teardown();
    if let Some((t, p)) = panics.first() {
        return Err(("panic".into(), format!("task {t} panicked: {p}")));
    }
    let want_h2 = requested == HttpProtocol::Http2 || alpn == Alpn::H2;
    let is_preface = bytes.starts_with(crate::props::iomc::PREFACE);
    if is_preface != want_h2 {
        return Err(("protocol-selection".into(), format!("connection speaks {} but request version {:?} / ALPN {alpn:?} calls for {}; client: {res:?}", if is_preface { "HTTP/2" } else { "HTTP/1" }, c.req_version, if want_h2 { "HTTP/2" } else { "HTTP/1.1" })));
    }
    if want_h2 {
        return Ok("wire-h2-preface".into());
    }
    // HTTP/1: request line and Host header as serialised by hyper
    let text = String::from_utf8_lossy(&bytes).to_string();
    let mut lines = text.split("\r\n");
    let request_line = lines.next().unwrap_or("").to_string();
    let want_target = if c.method == "CONNECT" {
        match c.port {
            Some(p) => format!("{}:{p}", c.host),
            None => c.host.to_string(),
        }
    } else {
        match c.query {
            Some(q) => format!("{}?{q}", c.want_path()),
            None => c.want_path().to_string(),
        }
    };
    let want_line = format!("{} {} HTTP/1.1", c.method, want_target);
    if request_line != want_line {
        return Err(("wire-request-line".into(), format!("request line on the wire {request_line:?}, expected {want_line:?}")));
    }
    let hosts: Vec<String> = lines.take_while(|l| !l.is_empty()).filter(|l| l.to_ascii_lowercase().starts_with("host:")).map(|l| l[5..].trim().to_string()).collect();
    if hosts.len() != 1 || hosts[0] != c.want_host() {
        return Err(("wire-host".into(), format!("Host on the wire {hosts:?}, expected {:?}", c.want_host())));
    }
    Ok("wire-h1".into())
}

fn replay(path: &str) -> i32 {
    let doc: serde_json::Value = serde_json::from_str(&std::fs::read_to_string(path).expect("replay file")).expect("json");
    let rp = doc.get("replay").cloned().unwrap_or(doc);
    if rp.get("engine").and_then(|x| x.as_str()) == Some("c13-builder") {
        std::panic::set_hook(Box::new(|_| {}));
        let (_, viols) = crate::schedmc::c13e2e::builder_stack_runs();
        let _ = std::panic::take_hook();
        for (sig, what, _) in &viols {
            println!("  {sig}: {what}");
        }
        return if viols.is_empty() {
            println!("replay holds");
            0
        } else {
            println!("VIOLATION property=C13 replay={path}");
            1
        };
    }
    let cases = grammar();
    let Some(c) = rp.get("case_index").and_then(|x| x.as_u64()).and_then(|i| cases.get(i as usize)) else {
        println!("MACHINERY-ERROR replay file has no case_index");
        return 2;
    };
    std::panic::set_hook(Box::new(|_| {}));
    let r = if rp.get("engine").and_then(|x| x.as_str()) == Some("c13-wire") {
        let alpn = match rp.get("alpn").and_then(|x| x.as_str()) {
            Some("TlsNone") => Alpn::TlsNone,
            Some("H2") => Alpn::H2,
            Some("Http11") => Alpn::Http11,
            _ => Alpn::NoTls,
        };
        println!("wire: {} {} {:?} ALPN {alpn:?}", c.method, c.uri(), c.req_version);
        wire_case(c, alpn)
    } else {
        let v = if rp.get("conn_version").and_then(|x| x.as_str()) == Some("HTTP/2.0") { http::Version::HTTP_2 } else { http::Version::HTTP_11 };
        println!("layers: {} {} {:?} on an {v:?} connection", c.method, c.uri(), c.req_version);
        check_part1(c, v)
    };
    let _ = std::panic::take_hook();
    match r {
        Ok(class) => {
            println!("outcome class {class}\nreplay holds");
            0
        }
        Err((sub, msg)) => {
            println!("  {sub}: {msg}\nVIOLATION property=C13 replay={path}");
            1
        }
    }
}

pub fn run(args: &Args) -> i32 {
    if let Some(p) = &args.replay {
        return replay(p);
    }
    let mut run = Run::new("C13", args.tier, "model_checking");
    std::panic::set_hook(Box::new(|_| {}));
    let cases = grammar();
    let mut evaluations = 0u64;
    let mut classes: BTreeSet<String> = BTreeSet::new();
    let sig = |c: &Case, conn: &str, sub: &str| format!("{sub} conn={conn} method={} path={:?} query={} port={} preset={}", if c.method == "CONNECT" { "CONNECT" } else { "other" }, if c.path.is_empty() { "empty" } else { "non-empty" }, match c.query { None => "none", Some("") => "empty", _ => "some" }, match c.port { None => "none".to_string(), Some(p) if p == c.default_port() => "default".into(), Some(p) if p == 80 || p == 443 => "other-default".into(), _ => "custom".into() }, c.preset);
    for (ci, c) in cases.iter().enumerate() {
        for conn_version in [http::Version::HTTP_11, http::Version::HTTP_2] {
            evaluations += 1;
            match check_part1(c, conn_version) {
                Ok(cl) => {
                    classes.insert(format!("layers|{conn_version:?}|{cl}"));
                }
                Err((sub, msg)) => run.violation(sig(c, &format!("{conn_version:?}"), &sub), format!("{msg}; request {} {} {:?} on an {conn_version:?} connection", c.method, c.uri(), c.req_version), json!({"engine":"c13-layers","case_index":ci,"case":format!("{c:?}"),"conn_version":format!("{conn_version:?}")})),
            }
        }
    }
    run.cov("part1_layer_cases", evaluations);
    // Part 2: a slice of the grammar that still covers every class, crossed with ALPN answers, onto the wire
    let thorough = args.tier.is_thorough();
    let wire: Vec<(usize, &Case)> = cases.iter().enumerate().filter(|(_, c)| {
        let host_ok = thorough || c.host == "example.com" || c.host == "[::1]";
        let path_ok = thorough || matches!(c.path, "" | "/a%20b");
        let method_ok = matches!(c.method, "GET" | "CONNECT" | "PURGE") || thorough;
        let scheme_ok = thorough || matches!(c.scheme, "http" | "https");
        host_ok && path_ok && method_ok && scheme_ok && c.req_version != http::Version::HTTP_10
    }).collect();
    let alpns = [Alpn::NoTls, Alpn::TlsNone, Alpn::H2, Alpn::Http11];
    let items: Vec<(usize, &Case, Alpn)> = wire.iter().flat_map(|(i, c)| alpns.iter().map(move |a| (*i, *c, *a))).collect();
    let results = crate::evidence::par_map(items.len(), crate::evidence::n_threads(), |i| {
        let (_, c, a) = items[i];
        wire_case(c, a)
    });
    let mut wire_n = 0u64;
    for (i, r) in results.into_iter().enumerate() {
        wire_n += 1;
        let (ci, c, a) = items[i];
        match r {
            Ok(cl) => {
                classes.insert(format!("wire|{a:?}|{:?}|{cl}", c.req_version));
            }
            Err((sub, msg)) => run.violation(sig(c, &format!("{a:?}"), &sub), format!("{msg}; request {} {} {:?}, ALPN {a:?}", c.method, c.uri(), c.req_version), json!({"engine":"c13-wire","case_index":ci,"case":format!("{c:?}"),"alpn":format!("{a:?}")})),
        }
    }
    let _ = std::panic::take_hook();
    run.cov("part2_wire_cases", wire_n);
    // part 3: the stack as Client::builder() assembles it, request sequences, redirect hops, pooled connections
    let (bn, bviols) = crate::schedmc::c13e2e::builder_stack_runs();
    run.cov("part3_builder_stack_sequences", bn);
    for (sg, what, rp) in bviols {
        run.violation(sg, what, rp);
    }
    run.cov("evaluations", evaluations + wire_n);
    run.cov("distinct_nontrivial", classes.len() as u64);
    run.cov("rule", "part 1: full cross product scheme{http,https,ws,wss} x host{name,IPv4,[IPv6],upper-case} x port{absent,80,443,8080} x path{empty,/,/a/b,/a%20b,//x} x query{absent,empty,q=1&r=2} x method{GET,POST,HEAD,OPTIONS,CONNECT,PURGE} x request version{1.0,1.1,2} x preset headers{none, caller's Host, connection-specific headers} x connection version{1.1,2} through the real layer stack, compared with a reference written from the statement; part 2: a covering slice of the same grammar x ALPN{no TLS, none, h2, http/1.1} through the real HttpConnectionBuilder and RequestExecutor onto an in-memory wire whose first bytes (h2 preface or request line + Host) are inspected; distinct = outcome classes");
    run.cov("exhaustive", true);
    run.cov("samples", vec![json!({"request":"GET http://example.com?q=1&r=2 HTTP/1.1 on an HTTP/1.1 connection","expect":"target /?q=1&r=2, Host: example.com"}), json!({"request":"CONNECT https://[::1]:8080 on HTTP/1.1","expect":"authority-form [::1]:8080"})]);
    run.assume("default ports: 80 for http/ws, 443 for https/wss; the caller's Host header wins; CONNECT uses authority-form");
    run.finish()
}
