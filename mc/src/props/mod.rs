pub mod c13;
pub mod c16;
pub mod c19;
pub mod c20;
pub mod hemc;
pub mod iomc;
