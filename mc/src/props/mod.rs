pub mod c16;
