pub mod c16;
pub mod c20;
