//! E4 `iomc` — C08 (unit level: the protocol sniffer under every chunking) and C18 (stream adapters
//! under every bounded sequence of operations and environment answers, against a reference FIFO).

use crate::evidence::{n_threads, par_map, Args, Run};
use crate::sio::{noop_cx_run, script, Ans, Call, HSio, Shared, Sio};
use hyperdriver::bridge::io::TokioIo;
use hyperdriver::server::conn::auto::verif as sniffer;
use serde_json::json;
use std::collections::BTreeSet;
use std::future::Future;
use std::io;
use std::mem::MaybeUninit;
use std::pin::Pin;
use std::task::Poll;

pub const PREFACE: &[u8] = b"PRI * HTTP/2.0\r\n\r\nSM\r\n\r\n";

// =================================================================================================
// C08

fn stream_family() -> Vec<(String, Vec<u8>)> {
    let mut v: Vec<(String, Vec<u8>)> = vec![];
    let settings: &[u8] = &[0, 0, 0, 4, 0, 0, 0, 0, 0]; // empty SETTINGS frame
    let mut h2 = PREFACE.to_vec();
    h2.extend_from_slice(settings);
    h2.extend_from_slice(&[0, 0, 0, 4, 1, 0, 0, 0, 0]); // SETTINGS ack
    v.push(("h2-preface+settings".into(), h2));
    v.push(("h2-preface-only".into(), PREFACE.to_vec()));
    let mut h2long = PREFACE.to_vec();
    h2long.extend_from_slice(&[7u8; 40]);
    v.push(("h2-preface+40-bytes".into(), h2long));
    v.push(("get".into(), b"GET /index.html HTTP/1.1\r\nHost: example.com\r\n\r\n".to_vec()));
    v.push(("post+body".into(), b"POST /submit HTTP/1.1\r\nHost: a\r\nContent-Length: 5\r\n\r\nhello".to_vec()));
    v.push(("pri-http11".into(), b"PRI * HTTP/1.1\r\nHost: a\r\n\r\n".to_vec()));
    v.push(("prix".into(), b"PRIX / HTTP/1.1\r\nHost: a\r\n\r\n".to_vec()));
    v.push(("put".into(), b"PUT /p HTTP/1.1\r\nHost: a\r\nContent-Length: 0\r\n\r\n".to_vec()));
    v.push(("short-get".into(), b"GET / HTTP/1.1\r\n\r\n".to_vec()));
    v.push(("empty".into(), vec![]));
    // every strict prefix of the preface followed by EOF, and followed by a diverging byte + tail
    for k in 1..PREFACE.len() {
        v.push((format!("preface[..{k}]+eof"), PREFACE[..k].to_vec()));
        let mut d = PREFACE[..k].to_vec();
        d.push(b'#');
        d.extend_from_slice(b" tail of an http/1 looking stream\r\n\r\n");
        v.push((format!("preface[..{k}]+diverge"), d));
    }
    v
}

/// One sniff run: `chunks` are the sizes handed out by successive reads (then the rest in one piece),
/// `pendings` is a bitmask of read indices before which the reader answers Pending once.
/// Returns (is_h2 | error, bytes read back through the rewind with read cap `out_cap`, reads used).
fn sniff_once(stream: &[u8], chunks: &[usize], pendings: u64, out_cap: usize) -> Result<(bool, Vec<u8>), String> {
    let sh = script(stream, false);
    {
        let mut s = sh.lock().unwrap();
        for (i, &c) in chunks.iter().enumerate() {
            if pendings >> i & 1 == 1 {
                s.answers.push_back(Ans::Pending);
            }
            s.answers.push_back(Ans::Read(c));
        }
        if pendings >> chunks.len() & 1 == 1 {
            s.answers.push_back(Ans::Pending);
        }
    }
    let mut fut = Box::pin(sniffer::sniff(HSio(sh.clone())));
    let mut result = None;
    for _ in 0..200 {
        match noop_cx_run(|cx| fut.as_mut().poll(cx)) {
            Poll::Ready(r) => {
                result = Some(r);
                break;
            }
            Poll::Pending => {}
        }
    }
    let Some(r) = result else { return Err("sniffer did not finish within 200 polls".into()) };
    let (is_h2, mut rewind) = r.map_err(|e| format!("sniffer error: {e}"))?;
    // read everything back
    let mut out = vec![];
    let mut storage = storage(out_cap);
    for _ in 0..(stream.len() + 8) * 2 {
        let mut rb = hyper::rt::ReadBuf::uninit(&mut storage);
        let p = noop_cx_run(|cx| hyper::rt::Read::poll_read(Pin::new(&mut rewind), cx, rb.unfilled()));
        match p {
            Poll::Pending => continue,
            Poll::Ready(Err(e)) => return Err(format!("read-back error: {e}")),
            Poll::Ready(Ok(())) => {
                let got = rb.filled();
                if got.is_empty() {
                    break;
                }
                out.extend_from_slice(got);
            }
        }
    }
    Ok((is_h2, out))
}

pub fn compositions_up_to_cuts(len: usize, max_cuts: usize, f: &mut impl FnMut(&[usize])) {
    // choose cut positions 1..len-1, at most max_cuts of them
    fn rec(len: usize, start: usize, left: usize, cuts: &mut Vec<usize>, f: &mut impl FnMut(&[usize])) {
        // emit current
        let mut sizes = vec![];
        let mut prev = 0;
        for &c in cuts.iter() {
            sizes.push(c - prev);
            prev = c;
        }
        if len > prev {
            sizes.push(len - prev);
        }
        f(&sizes);
        if left == 0 {
            return;
        }
        for c in start..len {
            cuts.push(c);
            rec(len, c + 1, left - 1, cuts, f);
            cuts.pop();
        }
    }
    if len == 0 {
        f(&[]);
        return;
    }
    rec(len, 1, max_cuts, &mut vec![], f);
}

fn replay_c08(path: &str) -> i32 {
    let doc: serde_json::Value = serde_json::from_str(&std::fs::read_to_string(path).expect("replay file")).expect("json");
    let rp = doc.get("replay").cloned().unwrap_or(doc);
    let bytes: Vec<u8> = rp.get("bytes").and_then(|x| x.as_array()).map(|a| a.iter().filter_map(|x| x.as_u64().map(|b| b as u8)).collect()).unwrap_or_default();
    let chunks: Vec<usize> = rp.get("chunks").and_then(|x| x.as_array()).map(|a| a.iter().filter_map(|x| x.as_u64().map(|b| b as usize)).collect()).unwrap_or_default();
    let pend = rp.get("pendings").and_then(|x| x.as_u64()).unwrap_or(0);
    let out_cap = rp.get("out_cap").and_then(|x| x.as_u64()).unwrap_or(64) as usize;
    let want_h2 = bytes.starts_with(PREFACE);
    let a = sniff_once(&bytes, &chunks, pend, out_cap);
    let b = sniff_once(&bytes, &chunks, pend, out_cap);
    if format!("{a:?}") != format!("{b:?}") {
        println!("MACHINERY-ERROR replay diverged");
        return 2;
    }
    println!("stream of {} bytes, chunks {chunks:?}, pending mask {pend:#b}, read-back cap {out_cap}: {:?} (expected http2={want_h2}, bytes intact)", bytes.len(), a.as_ref().map(|(h2, back)| (*h2, back.len())));
    match a {
        Ok((h2, back)) if h2 == want_h2 && back == bytes => {
            println!("replay holds");
            0
        }
        _ => {
            println!("VIOLATION property=C08 replay={path}");
            1
        }
    }
}

pub fn run_c08(args: &Args) -> i32 {
    if let Some(p) = &args.replay {
        return replay_c08(p);
    }
    let mut run = Run::new("C08", args.tier, "model_checking");
    let thorough = args.tier.is_thorough();
    let family = stream_family();
    let window = 32usize;
    let out_caps = [1usize, 2, 24, 64];
    let results = par_map(family.len(), n_threads(), |fi| {
        let (name, stream) = &family[fi];
        let want_h2 = stream.starts_with(PREFACE);
        let mut evals = 0u64;
        let mut viols: Vec<(String, String, serde_json::Value)> = vec![];
        let mut classes: BTreeSet<(bool, usize)> = BTreeSet::new();
        let mut check = |chunks: &[usize], pend: u64, out_cap: usize, evals: &mut u64| {
            *evals += 1;
            let r = {
                let (nm, st, ch) = (name.clone(), stream.clone(), chunks.to_vec());
                let _g = crate::evidence::watchdog::enter(move || json!({"engine":"iomc-c08","stream":nm,"bytes":st,"chunks":ch,"pendings":pend,"out_cap":out_cap}));
                sniff_once(stream, chunks, pend, out_cap)
            };
            let bad = match &r {
                Err(e) => Some(format!("error: {e}")),
                Ok((h2, back)) => {
                    classes.insert((*h2, chunks.len().min(4)));
                    if *h2 != want_h2 {
                        Some(format!("classified as {} but the stream {} with the HTTP/2 preface", if *h2 { "HTTP/2" } else { "HTTP/1" }, if want_h2 { "begins" } else { "does not begin" }))
                    } else if back != stream {
                        Some(format!("bytes seen by the protocol handler differ from the bytes sent ({} vs {} bytes, first difference at {})", back.len(), stream.len(), back.iter().zip(stream.iter()).position(|(a, b)| a != b).unwrap_or(back.len().min(stream.len()))))
                    } else {
                        None
                    }
                }
            };
            if let Some(b) = bad {
                if viols.len() < 3 {
                    let kind = if b.starts_with("classified") { "misclassified" } else if b.starts_with("bytes") { "bytes-altered" } else { "error" };
                    let class = if want_h2 { "h2-stream" } else if name.starts_with("preface[") { "preface-prefix" } else { "h1-stream" };
                    viols.push((format!("{kind} stream-class={class} fragmented={}", chunks.len() > 1 || pend != 0), format!("stream {name}: {b}; read chunks {chunks:?} pending-mask {pend:#b} read-back cap {out_cap}"),
                        json!({"engine":"iomc-c08","stream":name,"bytes":stream,"chunks":chunks,"pendings":pend,"out_cap":out_cap})));
                }
            }
        };
        let l = stream.len().min(window);
        if !thorough {
            // all compositions of the first `window` bytes with at most 3 cuts, each with no pending,
            // pending before the first read, pending before every read
            let mut comps: Vec<Vec<usize>> = vec![];
            compositions_up_to_cuts(l, 3, &mut |c| comps.push(c.to_vec()));
            for c in &comps {
                let all = (1u64 << (c.len() + 1)) - 1;
                for pend in [0u64, 1, all] {
                    check(c, pend, 64, &mut evals);
                }
                if c.len() <= 2 {
                    for &oc in &out_caps[..3] {
                        check(c, 0, oc, &mut evals);
                    }
                    // a pending before each single read position
                    for i in 0..=c.len() {
                        check(c, 1 << i, 24, &mut evals);
                    }
                }
            }
            // one byte at a time
            let ones = vec![1usize; l];
            for pend in [0u64, (1u64 << (l + 1).min(63)) - 1] {
                for &oc in &out_caps {
                    check(&ones, pend, oc, &mut evals);
                }
            }
        } else {
            // every composition of the first min(len,24) bytes (2^23 for a full window), plus the <=3-cut
            // compositions of the 32-byte window with pendings
            let l24 = stream.len().min(24);
            if l24 > 0 {
                for mask in 0u64..(1u64 << (l24 - 1)) {
                    let mut sizes = vec![];
                    let mut run_len = 1;
                    for b in 0..(l24 - 1) {
                        if mask >> b & 1 == 1 {
                            sizes.push(run_len);
                            run_len = 1;
                        } else {
                            run_len += 1;
                        }
                    }
                    sizes.push(run_len);
                    check(&sizes, 0, 64, &mut evals);
                }
            }
            let mut comps: Vec<Vec<usize>> = vec![];
            compositions_up_to_cuts(l, 3, &mut |c| comps.push(c.to_vec()));
            for c in &comps {
                for pend in 0u64..(1u64 << (c.len() + 1)) {
                    check(c, pend, 24, &mut evals);
                }
                for &oc in &out_caps {
                    check(c, 0, oc, &mut evals);
                }
            }
        }
        (evals, viols, classes.len())
    });
    let mut evals: u64 = 0;
    let mut distinct: u64 = 0;
    for (e, viols, cl) in results {
        evals += e;
        distinct += cl as u64;
        for (sig, what, rp) in viols {
            run.violation(sig, what, rp);
        }
    }
    // end-to-end clause: real clients through a fragmenting stream against the auto server vs a single-protocol server
    std::panic::set_hook(Box::new(|_| {}));
    let (e2e_n, e2e_distinct, e2e_viols) = crate::schedmc::c08e2e::run_all(thorough);
    let _ = std::panic::take_hook();
    for (sig, what, rp) in e2e_viols {
        run.violation(sig, what, rp);
    }
    run.cov("e2e_differential_executions", e2e_n);
    evals += e2e_n;
    distinct += e2e_distinct;
    run.cov("evaluations", evals);
    run.cov("distinct_nontrivial", distinct);
    run.cov("streams", family.len() as u64);
    run.cov("rule", if thorough {
        "for each of the streams of the family (h2 preface + frames, valid HTTP/1.1 requests, PRI look-alikes, every strict prefix of the preface followed by EOF / by a diverging byte): every composition (2^(n-1)) of the first min(len,24) bytes into reads, plus every composition with <=3 cuts of the first 32 bytes crossed with every placement of Pending answers and read-back caps {1,2,24,64}; distinct = (stream, verdict, number of reads)"
    } else {
        "for each stream of the family: every composition with <=3 cuts of the first 32 bytes into reads (this covers every single detector transition (offset, read size)), with Pending never / before the first read / before every read / before each single read, read-back caps {1,2,24,64}, and one byte at a time; distinct = (stream, verdict, number of reads)"
    });
    run.cov("exhaustive", true);
    run.cov("samples", vec![json!({"stream":"h2-preface+settings","chunks":[10,14,18],"pendings":"before every read","expect":"HTTP/2, bytes intact"}), json!({"stream":"preface[..7]+diverge","chunks":[3,4,1,38],"expect":"HTTP/1, bytes intact"})]);
    run.assume("unit level: the sniffer + rewind buffer are driven through the verif-hooks wrapper over a scripted reader; the end-to-end differential against plain hyper connections is part of the schedmc engine");
    miri_stage_report(&mut run, "C08");
    run.finish()
}

// =================================================================================================
// C18

#[derive(Clone, Copy, Debug, PartialEq, Eq, Hash, PartialOrd, Ord)]
enum Op {
    Write(usize),
    /// slices [1,2]
    WriteVectored,
    /// slices [2,1]: a short accept can cut the FIRST slice
    WriteVectoredB,
    Flush,
    Shutdown,
    /// (cap, prefilled)
    Read(usize, usize),
}

#[derive(Clone, Copy, Debug, PartialEq, Eq, Hash, PartialOrd, Ord)]
struct Step {
    op: Op,
    ans: Ans,
}

fn alphabet(thorough: bool) -> Vec<Step> {
    let mut v = vec![];
    let err = Ans::Err(io::ErrorKind::ConnectionReset);
    for len in [0usize, 1, 3] {
        for ans in [Ans::Accept(usize::MAX), Ans::Accept(1), Ans::Pending, err] {
            if len == 0 && ans == Ans::Accept(1) {
                continue;
            }
            v.push(Step { op: Op::Write(len), ans });
        }
    }
    for ans in [Ans::Accept(usize::MAX), Ans::Accept(1), Ans::Accept(2), Ans::Pending, err] {
        v.push(Step { op: Op::WriteVectored, ans });
    }
    for ans in [Ans::Accept(1), Ans::Accept(2)] {
        v.push(Step { op: Op::WriteVectoredB, ans });
    }
    for ans in [Ans::Ok, Ans::Pending, err] {
        v.push(Step { op: Op::Flush, ans });
        v.push(Step { op: Op::Shutdown, ans });
    }
    // (capacity, pre-filled bytes); pre-filled >= 100 means: the whole buffer is already initialised (a caller
    // re-using a zeroed buffer, `ReadBuf::new`), pre-filled - 100 bytes of it filled
    let caps: &[(usize, usize)] = if thorough { &[(0, 0), (1, 0), (2, 0), (8, 0), (0, 1), (1, 1), (2, 1), (8, 1), (8, 101), (2, 100), (1, 101)] } else { &[(0, 0), (1, 0), (2, 1), (8, 0), (8, 1), (8, 101)] };
    for &(cap, pre) in caps {
        for ans in [Ans::Read(usize::MAX), Ans::Read(1), Ans::Pending, Ans::ReadEof, err] {
            v.push(Step { op: Op::Read(cap, pre), ans });
        }
    }
    v
}

/// What the caller observed for one op.
#[derive(Clone, Debug, PartialEq, Eq)]
enum Seen {
    Wrote(usize),
    Done,
    ReadBytes(Vec<u8>),
    Pending,
    Err(io::ErrorKind),
    Corrupt(String),
}

trait Subject {
    fn write(&mut self, data: &[u8]) -> Seen;
    fn write_vectored(&mut self, a: &[u8], b: &[u8]) -> Seen;
    fn flush(&mut self) -> Seen;
    fn shutdown(&mut self) -> Seen;
    fn read(&mut self, cap: usize, prefilled: usize) -> Seen;
}

fn map_w(p: Poll<io::Result<usize>>) -> Seen {
    match p {
        Poll::Pending => Seen::Pending,
        Poll::Ready(Ok(n)) => Seen::Wrote(n),
        Poll::Ready(Err(e)) => Seen::Err(e.kind()),
    }
}
fn map_u(p: Poll<io::Result<()>>) -> Seen {
    match p {
        Poll::Pending => Seen::Pending,
        Poll::Ready(Ok(())) => Seen::Done,
        Poll::Ready(Err(e)) => Seen::Err(e.kind()),
    }
}

struct TokioSubject<T>(T);
impl<T: tokio::io::AsyncRead + tokio::io::AsyncWrite + Unpin> Subject for TokioSubject<T> {
    fn write(&mut self, data: &[u8]) -> Seen {
        map_w(noop_cx_run(|cx| Pin::new(&mut self.0).poll_write(cx, data)))
    }
    fn write_vectored(&mut self, a: &[u8], b: &[u8]) -> Seen {
        let bufs = [io::IoSlice::new(a), io::IoSlice::new(b)];
        map_w(noop_cx_run(|cx| Pin::new(&mut self.0).poll_write_vectored(cx, &bufs)))
    }
    fn flush(&mut self) -> Seen {
        map_u(noop_cx_run(|cx| Pin::new(&mut self.0).poll_flush(cx)))
    }
    fn shutdown(&mut self) -> Seen {
        map_u(noop_cx_run(|cx| Pin::new(&mut self.0).poll_shutdown(cx)))
    }
    fn read(&mut self, cap: usize, prefilled: usize) -> Seen {
        let initialised = prefilled >= 100;
        let prefilled = prefilled % 100;
        let mut storage = storage(cap + prefilled);
        let mut bytes = vec![0xA5u8; cap + prefilled];
        let mut rb = if initialised { tokio::io::ReadBuf::new(&mut bytes) } else { tokio::io::ReadBuf::uninit(&mut storage) };
        let pre: Vec<u8> = (0..prefilled).map(|i| 0xC0 + i as u8).collect();
        rb.put_slice(&pre);
        let p = noop_cx_run(|cx| Pin::new(&mut self.0).poll_read(cx, &mut rb));
        match p {
            Poll::Pending => {
                if rb.filled() != &pre[..] {
                    return Seen::Corrupt("buffer changed although the read is pending".into());
                }
                Seen::Pending
            }
            Poll::Ready(Err(e)) => Seen::Err(e.kind()),
            Poll::Ready(Ok(())) => {
                let f = rb.filled();
                if f.len() < prefilled || f[..prefilled] != pre[..] {
                    return Seen::Corrupt("pre-filled part of the read buffer was altered".into());
                }
                if rb.initialized().len() < f.len() {
                    return Seen::Corrupt("filled exceeds initialised".into());
                }
                Seen::ReadBytes(f[prefilled..].to_vec())
            }
        }
    }
}

struct HyperSubject<T>(T);
impl<T: hyper::rt::Read + hyper::rt::Write + Unpin> Subject for HyperSubject<T> {
    fn write(&mut self, data: &[u8]) -> Seen {
        map_w(noop_cx_run(|cx| Pin::new(&mut self.0).poll_write(cx, data)))
    }
    fn write_vectored(&mut self, a: &[u8], b: &[u8]) -> Seen {
        let bufs = [io::IoSlice::new(a), io::IoSlice::new(b)];
        map_w(noop_cx_run(|cx| Pin::new(&mut self.0).poll_write_vectored(cx, &bufs)))
    }
    fn flush(&mut self) -> Seen {
        map_u(noop_cx_run(|cx| Pin::new(&mut self.0).poll_flush(cx)))
    }
    fn shutdown(&mut self) -> Seen {
        map_u(noop_cx_run(|cx| Pin::new(&mut self.0).poll_shutdown(cx)))
    }
    fn read(&mut self, cap: usize, prefilled: usize) -> Seen {
        let initialised = prefilled >= 100;
        let prefilled = prefilled % 100;
        let mut storage = storage(cap + prefilled);
        let mut bytes = vec![0xA5u8; cap + prefilled];
        let mut rb = if initialised { hyper::rt::ReadBuf::new(&mut bytes) } else { hyper::rt::ReadBuf::uninit(&mut storage) };
        let pre: Vec<u8> = (0..prefilled).map(|i| 0xC0 + i as u8).collect();
        rb.unfilled().put_slice(&pre);
        let p = noop_cx_run(|cx| Pin::new(&mut self.0).poll_read(cx, rb.unfilled()));
        match p {
            Poll::Pending => {
                if rb.filled() != &pre[..] {
                    return Seen::Corrupt("buffer changed although the read is pending".into());
                }
                Seen::Pending
            }
            Poll::Ready(Err(e)) => Seen::Err(e.kind()),
            Poll::Ready(Ok(())) => {
                let f = rb.filled();
                if f.len() < prefilled || f[..prefilled] != pre[..] {
                    return Seen::Corrupt("pre-filled part of the read buffer was altered".into());
                }
                Seen::ReadBytes(f[prefilled..].to_vec())
            }
        }
    }
}

const INCOMING: &[u8] = b"abcdefghijklmnopqrstuvwxyz0123456789";
const SNIFF_H2: &[u8] = b"PRI * HTTP/2.0\r\n\r\nSM\r\n\r\nabcdefghijklmnopqrstuvwxyz";
const SNIFF_H1: &[u8] = b"PRI * HTTP/1.1\r\nhost: abcdefghijklmnopqrstuvwxyz\r\n\r\n";

/// Build the rewind buffer the way the server does: run the real sniffer over the scripted stream
/// with the given answers for its own reads, then hand out what it returns.
fn sniffed(sh: Shared, answers: &[Ans]) -> Box<dyn Subject> {
    {
        let mut s = sh.lock().unwrap();
        s.answers.extend(answers.iter().copied());
    }
    let mut fut = Box::pin(sniffer::sniff(HSio(sh.clone())));
    for _ in 0..200 {
        if let Poll::Ready(r) = noop_cx_run(|cx| fut.as_mut().poll(cx)) {
            let (_, rewind) = r.expect("sniffer over a scripted stream without errors");
            let mut s = sh.lock().unwrap();
            s.answers.clear();
            return Box::new(HyperSubject(rewind));
        }
    }
    panic!("sniffer did not finish within 200 polls");
}

/// Read-buffer storage. Natively it carries a recognisable pattern (so a wrong `filled` length shows
/// up as wrong bytes, deterministically); under miri it is genuinely uninitialised, so that an
/// adapter claiming more bytes than it wrote is reported as a read of uninitialised memory.
fn storage(n: usize) -> Vec<MaybeUninit<u8>> {
    if cfg!(miri) {
        let mut v: Vec<MaybeUninit<u8>> = Vec::with_capacity(n);
        // SAFETY: MaybeUninit<u8> needs no initialisation
        #[allow(unsafe_code)]
        unsafe {
            v.set_len(n)
        };
        v
    } else {
        vec![MaybeUninit::new(0xA5u8); n]
    }
}

struct AdapterDef {
    name: &'static str,
    prefix: &'static [u8],
    build: fn(Shared) -> Box<dyn Subject>,
    /// what the peer sends (default: INCOMING); the sniffed stacks need a stream that looks like a preface
    incoming: Option<&'static [u8]>,
}

fn adapters() -> Vec<AdapterDef> {
    use hyperdriver::stream::TlsBraid;
    vec![
        AdapterDef { name: "TokioIo<tokio-stream> as hyper Read/Write", prefix: b"", build: |s| Box::new(HyperSubject(TokioIo::new(Sio(s)))), incoming: None },
        AdapterDef { name: "TokioIo<hyper-stream> as tokio AsyncRead/AsyncWrite", prefix: b"", build: |s| Box::new(TokioSubject(TokioIo::new(HSio(s)))), incoming: None },
        AdapterDef { name: "TokioIo<TokioIo<tokio-stream>> round trip", prefix: b"", build: |s| Box::new(TokioSubject(TokioIo::new(TokioIo::new(Sio(s))))), incoming: None },
        AdapterDef { name: "Rewind(prefix len 0)", prefix: b"", build: |s| Box::new(HyperSubject(sniffer::rewind(HSio(s), vec![]))), incoming: None },
        AdapterDef { name: "Rewind(prefix len 1)", prefix: b"P", build: |s| Box::new(HyperSubject(sniffer::rewind(HSio(s), b"P".to_vec()))), incoming: None },
        AdapterDef { name: "Rewind(prefix len 3)", prefix: b"PQR", build: |s| Box::new(HyperSubject(sniffer::rewind(HSio(s), b"PQR".to_vec()))), incoming: None },
        AdapterDef { name: "TlsBraid::NoTls", prefix: b"", build: |s| Box::new(TokioSubject(TlsBraid::<Sio, Sio>::NoTls(Sio(s)))), incoming: None },
        AdapterDef { name: "client Stream::new", prefix: b"", build: |s| Box::new(TokioSubject(hyperdriver::client::conn::Stream::new(Sio(s)))), incoming: None },
        AdapterDef { name: "server Stream::new", prefix: b"", build: |s| Box::new(TokioSubject(hyperdriver::server::conn::Stream::new(Sio(s)))), incoming: None },
        // the rewind buffer as the sniffer fills it: the peer's stream starts like the HTTP/2 preface and
        // arrives in short reads with Pending in between while the sniffer is deciding
        AdapterDef { name: "sniffed: Rewind filled by the sniffer over short reads with Pending (full preface)", prefix: b"", build: |s| sniffed(s, &[Ans::Read(3), Ans::Pending, Ans::Read(5), Ans::Pending, Ans::Read(1), Ans::Read(usize::MAX)]), incoming: Some(SNIFF_H2) },
        AdapterDef { name: "sniffed: Rewind filled by the sniffer over short reads with Pending (preface look-alike)", prefix: b"", build: |s| sniffed(s, &[Ans::Read(1), Ans::Pending, Ans::Read(2), Ans::Pending, Ans::Read(usize::MAX)]), incoming: Some(SNIFF_H1) },
        AdapterDef { name: "TokioIo<Rewind<TokioIo<tokio-stream>>> (server stack)", prefix: b"PQR", build: |s| Box::new(TokioSubject(TokioIo::new(sniffer::rewind(TokioIo::new(Sio(s)), b"PQR".to_vec())))), incoming: None },
    ]
}

/// Run one operation sequence against one adapter; returns a violation description if the reference disagrees.
fn run_sequence(ad: &AdapterDef, seq: &[Step], vectored_inner: bool) -> Result<u8, String> {
    let incoming: &[u8] = ad.incoming.unwrap_or(INCOMING);
    let sh = script(incoming, vectored_inner);
    let mut subj = (ad.build)(sh.clone());
    // bytes the stack consumed while it was being built (the sniffer's reads) are its replay prefix
    let (dyn_prefix, incoming_rest): (Vec<u8>, &[u8]) = {
        let mut s = sh.lock().unwrap();
        let consumed = s.cursor;
        s.calls.clear();
        (incoming[..consumed].to_vec(), &incoming[consumed..])
    };
    let prefix: Vec<u8> = if ad.incoming.is_some() { dyn_prefix } else { ad.prefix.to_vec() };
    let mut acked: Vec<u8> = vec![]; // bytes the adapter acknowledged as written, in order
    let mut delivered: Vec<u8> = vec![]; // bytes the adapter delivered to the reader, in order
    let mut source: Vec<u8> = prefix.clone();
    source.extend_from_slice(incoming_rest);
    let mut outcome_class = 0u8;
    for (i, st) in seq.iter().enumerate() {
        let calls_before = sh.lock().unwrap().calls.len();
        let answers_before;
        {
            let mut s = sh.lock().unwrap();
            s.answers.clear();
            s.answers.push_back(st.ans);
            answers_before = 1;
        }
        // an adapter that panics on a legal call is reported like any other corruption
        let seen = match std::panic::catch_unwind(std::panic::AssertUnwindSafe(|| match st.op {
            Op::Write(n) => subj.write(&b"XYZ"[..n]),
            Op::WriteVectored => subj.write_vectored(b"U", b"VW"),
            Op::WriteVectoredB => subj.write_vectored(b"UV", b"W"),
            Op::Flush => subj.flush(),
            Op::Shutdown => subj.shutdown(),
            Op::Read(cap, pre) => subj.read(cap, pre),
        })) {
            Ok(s) => s,
            Err(p) => Seen::Corrupt(format!(
                "the adapter panicked: {}",
                p.downcast_ref::<&str>().map(|s| s.to_string()).or_else(|| p.downcast_ref::<String>().cloned()).unwrap_or_default()
            )),
        };
        let (calls, answer_used) = {
            let s = sh.lock().unwrap();
            (s.calls[calls_before..].to_vec(), s.answers.len() < answers_before)
        };
        let ctx = || format!("step {i} {:?} with inner answer {:?}: saw {seen:?}, inner calls {calls:?}", st.op, st.ans);
        if let Seen::Corrupt(m) = &seen {
            return Err(format!("{m}; {}", ctx()));
        }
        match st.op {
            Op::Write(_) | Op::WriteVectored | Op::WriteVectoredB => {
                let offered: Vec<u8> = match st.op {
                    Op::Write(n) => b"XYZ"[..n].to_vec(),
                    _ => b"UVW".to_vec(),
                };
                match &seen {
                    Seen::Wrote(n) => {
                        if *n > offered.len() {
                            return Err(format!("write acknowledged more bytes than offered; {}", ctx()));
                        }
                        acked.extend_from_slice(&offered[..*n]);
                        outcome_class |= 1;
                    }
                    Seen::Pending => {
                        if answer_used && st.ans != Ans::Pending {
                            return Err(format!("write reported Pending although the inner stream accepted data; {}", ctx()));
                        }
                    }
                    Seen::Err(k) => {
                        if answer_used && st.ans != Ans::Err(*k) {
                            return Err(format!("write error does not match the inner error; {}", ctx()));
                        }
                        outcome_class |= 2;
                    }
                    _ => return Err(format!("unexpected result; {}", ctx())),
                }
                if answer_used {
                    match st.ans {
                        Ans::Pending if seen != Seen::Pending => return Err(format!("inner Pending not propagated; {}", ctx())),
                        Ans::Err(k) if seen != Seen::Err(k) => return Err(format!("inner error not propagated; {}", ctx())),
                        _ => {}
                    }
                }
            }
            Op::Flush | Op::Shutdown => {
                let expect = match st.ans {
                    Ans::Ok => Seen::Done,
                    Ans::Pending => Seen::Pending,
                    Ans::Err(k) => Seen::Err(k),
                    _ => unreachable!(),
                };
                if !answer_used {
                    return Err(format!("operation was not forwarded to the inner stream; {}", ctx()));
                }
                if seen != expect {
                    return Err(format!("result differs from the inner stream's answer; {}", ctx()));
                }
            }
            Op::Read(cap, _) => match &seen {
                Seen::ReadBytes(b) => {
                    if b.len() > cap {
                        return Err(format!("read delivered more than the buffer capacity; {}", ctx()));
                    }
                    delivered.extend_from_slice(b);
                    if b.is_empty() && cap > 0 {
                        outcome_class |= 4;
                    } else {
                        outcome_class |= 8;
                    }
                }
                Seen::Pending => {
                    if !(answer_used && st.ans == Ans::Pending) {
                        return Err(format!("read reported Pending although the inner stream did not; {}", ctx()));
                    }
                }
                Seen::Err(k) => {
                    if !(answer_used && st.ans == Ans::Err(*k)) {
                        return Err(format!("read error does not match the inner stream's; {}", ctx()));
                    }
                    outcome_class |= 16;
                }
                _ => return Err(format!("unexpected result; {}", ctx())),
            },
        }
        // reference FIFO, checked after every step
        let s = sh.lock().unwrap();
        if !acked.starts_with(&s.received) {
            return Err(format!("inner stream received bytes that were not written (or out of order): received {:?}, acknowledged {:?}; {}", s.received, acked, ctx()));
        }
        if s.received.len() < acked.len() {
            // acknowledged but not (yet) passed on: only legal for a buffering adapter, checked after flush below
        }
        let consumed = prefix.len().min(delivered.len()) + s.cursor.min(incoming.len());
        let _ = consumed;
        if !source.starts_with(&delivered) {
            return Err(format!("reader saw bytes that the peer did not send (or out of order): delivered {:?}; {}", delivered, ctx()));
        }
        // nothing the inner stream handed over may be lost: what was taken from the peer == what was delivered beyond the prefix
        let from_inner = delivered.len().saturating_sub(prefix.len());
        let inner_gave: usize = s.calls.iter().map(|c| if let Call::Read { gave, .. } = c { *gave } else { 0 }).sum();
        if inner_gave != from_inner && delivered.len() >= prefix.len() {
            return Err(format!("inner stream handed over {inner_gave} bytes but the reader received {from_inner} beyond the replayed prefix; {}", ctx()));
        }
        if delivered.len() < prefix.len() && inner_gave > 0 {
            return Err(format!("inner stream was read before the replayed prefix was drained; {}", ctx()));
        }
    }
    // final flush: everything acknowledged must have reached the inner stream
    {
        let mut s = sh.lock().unwrap();
        s.answers.clear();
    }
    let _ = subj.flush();
    let s = sh.lock().unwrap();
    if s.received != acked {
        return Err(format!("after a final flush the inner stream holds {:?} but {:?} was acknowledged as written", s.received, acked));
    }
    Ok(outcome_class)
}

fn decode(mut code: usize, depth: usize, alpha: &[Step]) -> Vec<Step> {
    let mut v = Vec::with_capacity(depth);
    for _ in 0..depth {
        v.push(alpha[code % alpha.len()]);
        code /= alpha.len();
    }
    v
}

fn replay_c18(path: &str) -> i32 {
    let doc: serde_json::Value = serde_json::from_str(&std::fs::read_to_string(path).expect("replay file")).expect("json");
    let rp = doc.get("replay").cloned().unwrap_or(doc);
    if rp.get("engine").and_then(|x| x.as_str()) == Some("miri") {
        println!("miri artefact: case {}; log {}; re-run `./check C18 --tier thorough` to repeat the miri stage", rp.get("case").and_then(|x| x.as_str()).unwrap_or(""), rp.get("log").and_then(|x| x.as_str()).unwrap_or(""));
        return 2;
    }
    if rp.get("engine").and_then(|x| x.as_str()) != Some("iomc-c18") {
        println!("replay of duplex / socket artefacts: re-run ./check C18 (the sequence is printed in the artefact)");
        return 2;
    }
    let name = rp.get("adapter").and_then(|x| x.as_str()).unwrap_or("");
    let full = rp.get("full_alphabet").and_then(|x| x.as_bool()).unwrap_or(false);
    let vectored = rp.get("vectored").and_then(|x| x.as_bool()).unwrap_or(false);
    let idx: Vec<usize> = rp.get("sequence_indices").and_then(|x| x.as_array()).map(|a| a.iter().filter_map(|x| x.as_u64().map(|b| b as usize)).collect()).unwrap_or_default();
    let alpha = alphabet(full);
    let seq: Vec<Step> = idx.iter().filter_map(|i| alpha.get(*i).copied()).collect();
    let ads = adapters();
    let Some(ad) = ads.iter().find(|a| a.name == name) else {
        println!("MACHINERY-ERROR unknown adapter {name}");
        return 2;
    };
    let a = run_sequence(ad, &seq, vectored);
    let b = run_sequence(ad, &seq, vectored);
    if a != b {
        println!("MACHINERY-ERROR replay diverged");
        return 2;
    }
    println!("{name}: {seq:?} (inner vectored={vectored})");
    match a {
        Ok(_) => {
            println!("replay holds");
            0
        }
        Err(m) => {
            println!("  {m}\nVIOLATION property=C18 replay={path}");
            1
        }
    }
}

pub fn run_c18(args: &Args) -> i32 {
    if let Some(p) = &args.replay {
        return replay_c18(p);
    }
    let mut run = Run::new("C18", args.tier, "model_checking");
    let thorough = args.tier.is_thorough();
    if std::env::var("HDMC_SHOW_PANICS").is_err() {
        std::panic::set_hook(Box::new(|_| {}));
    }
    let ads = adapters();
    let mut evals = 0u64;
    let mut distinct = 0u64;
    let mut per_adapter = vec![];
    // quick: the reduced read-shape alphabet to depth 4; thorough: that alphabet to depth 5 and the
    // full alphabet (all capacity / pre-fill shapes) to depth 4
    let passes: Vec<(Vec<Step>, usize)> = if thorough { vec![(alphabet(false), 5), (alphabet(true), 4)] } else { vec![(alphabet(false), 4)] };
    let alpha = passes[0].0.clone();
    let depth = passes[0].1;
    for (alpha, depth) in &passes {
    let (alpha, depth) = (alpha.clone(), *depth);
    for ad in &ads {
        let total: usize = (1..=depth).map(|d| alpha.len().pow(d as u32)).sum();
        let threads = n_threads();
        let nchunks = threads * 8;
        let res = par_map(nchunks, threads, |ci| {
            let mut classes: BTreeSet<u8> = BTreeSet::new();
            let mut bad: Option<(Vec<Step>, bool, String)> = None;
            let mut n = 0u64;
            let current: std::sync::Arc<std::sync::Mutex<(Vec<Step>, bool)>> = std::sync::Arc::new(std::sync::Mutex::new((vec![], false)));
            let _g = {
                let (cur, an, al) = (current.clone(), ad.name, alpha.clone());
                crate::evidence::watchdog::enter(move || {
                    let c = cur.lock().unwrap();
                    json!({"engine":"iomc-c18","adapter":an,"sequence":c.0.iter().map(|s| format!("{:?}", s)).collect::<Vec<_>>(),"sequence_indices":c.0.iter().map(|s| al.iter().position(|a| a == s).unwrap_or(0)).collect::<Vec<_>>(),"full_alphabet":al.len() > 50,"vectored":c.1})
                })
            };
            for d in 1..=depth {
                let count = alpha.len().pow(d as u32);
                let mut code = ci;
                while code < count {
                    let seq = decode(code, d, &alpha);
                    for vectored in [false, true] {
                        // the vectored flag only matters when a vectored write occurs
                        if vectored && !seq.iter().any(|s| matches!(s.op, Op::WriteVectored | Op::WriteVectoredB)) {
                            continue;
                        }
                        n += 1;
                        let res = {
                            // the watchdog guard of this chunk describes whatever sequence is current
                            {
                                let mut cur = current.lock().unwrap();
                                cur.0.clear();
                                cur.0.extend_from_slice(&seq);
                                cur.1 = vectored;
                            }
                            crate::evidence::watchdog::touch();
                            run_sequence(ad, &seq, vectored)
                        };
                        match res {
                            Ok(c) => {
                                classes.insert(c);
                            }
                            Err(m) => {
                                if bad.as_ref().map(|b| seq.len() < b.0.len()).unwrap_or(true) {
                                    bad = Some((seq.clone(), vectored, m));
                                }
                            }
                        }
                    }
                    code += nchunks;
                }
            }
            (n, classes, bad)
        });
        let mut classes: BTreeSet<u8> = BTreeSet::new();
        let mut n_ad = 0;
        let mut worst: Option<(Vec<Step>, bool, String)> = None;
        for (n, c, b) in res {
            n_ad += n;
            classes.extend(c);
            if let Some(b) = b {
                if worst.as_ref().map(|w| (b.0.len(), &b.0) < (w.0.len(), &w.0)).unwrap_or(true) {
                    worst = Some(b);
                }
            }
        }
        evals += n_ad;
        distinct += classes.len() as u64;
        per_adapter.push(json!({"adapter": ad.name, "alphabet": alpha.len(), "depth": depth, "sequences": n_ad, "expected_minimum": total, "outcome_classes": classes.len()}));
        if let Some((seq, vectored, m)) = worst {
            let kind = m.split(';').next().unwrap_or("").to_string();
            run.violation(format!("adapter={} problem={kind}", ad.name), format!("{}: {m}; sequence {seq:?} (inner vectored={vectored})", ad.name),
                json!({"engine":"iomc-c18","adapter":ad.name,"sequence":seq.iter().map(|s| format!("{:?}", s)).collect::<Vec<_>>(),"sequence_indices":seq.iter().map(|s| alpha.iter().position(|a| a == s).unwrap_or(0)).collect::<Vec<_>>(),"full_alphabet":alpha.len() > 50,"vectored":vectored}));
        }
    }
    }
    // in-memory duplex transport: operation sequences on both ends against a bounded FIFO reference
    // the lazy-handshake TLS streams (client and server side) before anything was read or written:
    // flush / shutdown sequences; a shutdown that reports success must have reached the transport
    let (tn, tviol) = lazy_tls_shutdown_sequences();
    evals += tn;
    per_adapter.push(json!({"adapter":"client / server TlsStream before the handshake (flush, shutdown only)", "sequences": tn}));
    if let Some((sig, what, rp)) = tviol {
        run.violation(sig, what, rp);
    }
    let (dn, dclasses, dviol) = duplex_enumeration(if thorough { 6 } else { 5 });
    evals += dn;
    distinct += dclasses;
    per_adapter.push(json!({"adapter":"stream::duplex::DuplexStream / Braid / client+server Stream over it", "sequences": dn, "outcome_classes": dclasses}));
    if let Some((sig, what, rp)) = dviol {
        run.violation(sig, what, rp);
    }
    match socket_scripts() {
        Ok(n) => run.cov("socket_scripts_real_tcp_unix", n),
        Err(e) => run.violation("socket-script".into(), e, json!({"engine":"iomc-c18","sockets":true})),
    }
    run.cov("evaluations", evals);
    run.cov("distinct_nontrivial", distinct);
    run.cov("adapters", per_adapter);
    run.cov("alphabet_size", alpha.len() as u64);
    run.cov("depth", depth as u64);
    run.cov("rule", format!("every sequence of 1..={depth} steps over an alphabet of {} (operation, environment answer) pairs — write of 0/1/3 bytes, vectored write [1,2], flush, shutdown, read with capacities 0/1/2/8 and pre-filled buffers, each crossed with the inner stream's answers (full, short, Pending, EOF, error) — for each adapter stack over a scripted inner stream; plus every sequence of operations on both ends of the in-memory duplex with buffer sizes 1/2/8; compared with a reference FIFO after every step; distinct = outcome classes (acked write / write error / EOF / data / read error) per adapter", alpha.len()));
    run.cov("exhaustive", true);
    run.cov("samples", vec![json!({"adapter":"Rewind(prefix len 3)","sequence":["Read(cap 2, prefilled 1) -> inner not touched","Read(cap 8) -> 'R' then inner data","Write(3) short accept 1"]})]);
    run.assume("TcpStream/UnixStream wrappers: fixed sequential scripts over real socket pairs (supplementary, one-sided); their generic dispatch (Braid, TlsBraid, Stream) is covered over scripted and duplex inners");
    miri_stage_report(&mut run, "C18");
    run.finish()
}

// -------------------------------------------------------------------------------------------------
// TLS streams before the handshake

/// Every sequence of up to 3 steps over {flush, shutdown} x inner answers {Ok, Pending, Err} on a
/// client-side and a server-side TLS stream on which no handshake has started. Nothing was written,
/// so nothing may reach the wire; a flush may be a no-op; but a shutdown that returns Ok must have
/// been carried out on the transport (end-of-stream is propagated), and the transport's Pending /
/// error answers to it must come back.
fn lazy_tls_shutdown_sequences() -> (u64, Option<(String, String, serde_json::Value)>) {
    use crate::schedmc::tlsfix;
    let (Ok(server_cfg), Ok(client_cfg)) = (tlsfix::server_config("examplecom", &[]), tlsfix::client_config(&[])) else {
        return (0, Some(("tls-fixtures".into(), "TLS fixtures could not be loaded".into(), json!({"engine":"iomc-c18-tls"}))));
    };
    let client_cfg = std::sync::Arc::new(client_cfg);
    let err = Ans::Err(io::ErrorKind::ConnectionReset);
    let steps: Vec<Step> = [Ans::Ok, Ans::Pending, err].iter().flat_map(|a| [Step { op: Op::Flush, ans: *a }, Step { op: Op::Shutdown, ans: *a }]).collect();
    let mut n = 0u64;
    for side in ["client", "server"] {
        for d in 1..=3usize {
            for code in 0..steps.len().pow(d as u32) {
                let seq = decode(code, d, &steps);
                n += 1;
                let sh = script(b"", false);
                let mut subj: Box<dyn Subject> = if side == "client" {
                    Box::new(TokioSubject(hyperdriver::client::conn::stream::TlsStream::new(Sio(sh.clone()), "example.com", client_cfg.clone())))
                } else {
                    let accept = tokio_rustls::TlsAcceptor::from(server_cfg.clone()).accept(Sio(sh.clone()));
                    Box::new(TokioSubject(hyperdriver::server::conn::tls::TlsStream::new(accept)))
                };
                for (i, st) in seq.iter().enumerate() {
                    {
                        let mut s = sh.lock().unwrap();
                        s.answers.clear();
                        s.answers.push_back(st.ans);
                    }
                    let before = sh.lock().unwrap().calls.len();
                    let seen = if st.op == Op::Flush { subj.flush() } else { subj.shutdown() };
                    let s = sh.lock().unwrap();
                    let calls = s.calls[before..].to_vec();
                    let fail = |what: &str| {
                        Some((
                            format!("lazy-tls {side} {}", what.split(':').next().unwrap_or("")),
                            format!("{side}-side TLS stream before its handshake, step {i} of {seq:?}: {what}; saw {seen:?}, transport calls {calls:?}"),
                            json!({"engine":"iomc-c18-tls","side":side,"sequence":seq.iter().map(|s| format!("{s:?}")).collect::<Vec<_>>()}),
                        ))
                    };
                    if !s.received.is_empty() {
                        return (n, fail("bytes-invented: bytes reached the transport although nothing was written"));
                    }
                    if st.op == Op::Shutdown {
                        let reached = calls.iter().any(|c| matches!(c, Call::Shutdown | Call::Pending("shutdown") | Call::Err("shutdown")));
                        match (&seen, st.ans) {
                            (Seen::Done, _) if !reached => return (n, fail("shutdown-not-propagated: shutdown reported success but never reached the transport")),
                            (Seen::Done, Ans::Ok) => {}
                            (Seen::Pending, Ans::Pending) | (Seen::Err(_), Ans::Err(_)) => {}
                            (other, a) if reached => return (n, fail(&format!("shutdown-result-altered: the transport answered {a:?} but the caller saw {other:?}"))),
                            _ => return (n, fail("shutdown-not-propagated: the transport was not asked to shut down")),
                        }
                    }
                }
            }
        }
    }
    (n, None)
}

// -------------------------------------------------------------------------------------------------
// duplex

fn duplex_enumeration(depth: usize) -> (u64, u64, Option<(String, String, serde_json::Value)>) {
    use hyperdriver::stream::duplex::DuplexStream;
    use hyperdriver::stream::Braid;
    #[derive(Clone, Copy, Debug, PartialEq, Eq)]
    enum D {
        W(u8, usize),
        R(u8, usize),
        Shut(u8),
        Flush(u8),
        /// vectored write of k bytes in two slices; the bytes differ from step to step, so a write that is given up
        /// after `Pending` and followed by another one offers different data
        WV(u8, usize),
    }
    // (R(1, 0): a read with no free room — a readiness probe — must not be mistaken for end of stream)
    let ops = [D::W(0, 1), D::W(0, 3), D::R(1, 1), D::R(1, 8), D::R(1, 0), D::Shut(0), D::Flush(0), D::W(1, 2), D::R(0, 2), D::Shut(1), D::WV(0, 3)];
    let mut n = 0u64;
    let mut classes: BTreeSet<String> = BTreeSet::new();
    let mut viol = None;
    for wrap in 0..3 {
        for bufsize in [1usize, 2, 8] {
            let total = ops.len().pow(depth as u32);
            for code in 0..total {
                let mut c = code;
                let seq: Vec<D> = (0..depth).map(|_| { let o = ops[c % ops.len()]; c /= ops.len(); o }).collect();
                n += 1;
                let (a, b) = DuplexStream::new(bufsize);
                let mut ends: [Box<dyn Subject>; 2] = match wrap {
                    0 => [Box::new(TokioSubject(a)), Box::new(TokioSubject(b))],
                    1 => [Box::new(TokioSubject(Braid::from(a))), Box::new(TokioSubject(Braid::from(b)))],
                    _ => [Box::new(TokioSubject(hyperdriver::client::conn::Stream::from(a))), Box::new(TokioSubject(hyperdriver::server::conn::Stream::from(b)))],
                };
                // reference: two bounded FIFOs
                let mut fifo: [std::collections::VecDeque<u8>; 2] = [Default::default(), Default::default()]; // fifo[i]: written by end i
                let mut shut = [false, false];
                let mut counter = [0u8, 0u8];
                let mut trace = String::new();
                for (si, op) in seq.iter().enumerate() {
                    let err = |m: String| Some((format!("duplex wrap={wrap} problem={}", m.split(':').next().unwrap_or("")), format!("duplex(buf {bufsize}, wrap {wrap}) step {si} of {seq:?}: {m}"), json!({"engine":"iomc-c18-duplex","wrap":wrap,"bufsize":bufsize,"sequence":format!("{seq:?}")})));
                    match *op {
                        D::W(e, k) | D::WV(e, k) => {
                            let e = e as usize;
                            let vectored = matches!(*op, D::WV(..));
                            let data: Vec<u8> = if vectored { (0..k).map(|i| b'A' + ((si * 7 + i) % 26) as u8).collect() } else { (0..k).map(|i| b'a' + (counter[e] + i as u8) % 26 + (e as u8) * 0).collect() };
                            let seen = if vectored { ends[e].write_vectored(&data[..1], &data[1..]) } else { ends[e].write(&data) };
                            let room = bufsize - fifo[e].len();
                            match seen {
                                Seen::Wrote(m) => {
                                    if shut[e] { viol = viol.or(err(format!("write-after-shutdown: accepted {m} bytes"))); }
                                    if m > k { viol = viol.or(err(format!("write-count: {m} bytes reported as accepted, {k} were offered"))); }
                                    if m > room || (m == 0 && k > 0) { viol = viol.or(err(format!("write-overflow: accepted {m} bytes with room {room}"))); }
                                    fifo[e].extend(&data[..m.min(data.len())]);
                                    counter[e] += m as u8;
                                    trace.push('w');
                                }
                                Seen::Pending => {
                                    if room > 0 && !shut[e] { viol = viol.or(err(format!("write-pending: Pending with room {room}"))); }
                                    trace.push('p');
                                }
                                Seen::Err(_) => {
                                    if !shut[e] && !shut[1 - e] { viol = viol.or(err("write-error: error on an open duplex".to_string())); }
                                    trace.push('e');
                                }
                                s => viol = viol.or(err(format!("write-unexpected: {s:?}"))),
                            }
                        }
                        D::R(e, cap) => {
                            let e = e as usize;
                            let src = 1 - e;
                            match ends[e].read(cap, 0) {
                                Seen::ReadBytes(b) => {
                                    let want: Vec<u8> = fifo[src].iter().take(b.len()).copied().collect();
                                    if b != want { viol = viol.or(err(format!("read-data: got {b:?}, the peer wrote {want:?} next"))); }
                                    if b.is_empty() && cap > 0 && !(shut[src] && fifo[src].is_empty()) { viol = viol.or(err("read-eof: end of stream although the peer has not shut down / data is buffered".to_string())); }
                                    if b.len() < cap.min(fifo[src].len()) { viol = viol.or(err(format!("read-short: {} bytes delivered, {} available for capacity {cap}", b.len(), fifo[src].len()))); }
                                    for _ in 0..b.len() { fifo[src].pop_front(); }
                                    trace.push(if b.is_empty() { 'z' } else { 'r' });
                                }
                                Seen::Pending => {
                                    if cap > 0 && (!fifo[src].is_empty() || shut[src]) { viol = viol.or(err("read-pending: Pending although data or end of stream is available".to_string())); }
                                    trace.push('P');
                                }
                                s => viol = viol.or(err(format!("read-unexpected: {s:?}"))),
                            }
                        }
                        D::Shut(e) => {
                            let e = e as usize;
                            match ends[e].shutdown() {
                                Seen::Done => shut[e] = true,
                                s => viol = viol.or(err(format!("shutdown-unexpected: {s:?}"))),
                            }
                            trace.push('s');
                        }
                        D::Flush(e) => {
                            if ends[e as usize].flush() != Seen::Done { viol = viol.or(err("flush-unexpected".to_string())); }
                            trace.push('f');
                        }
                    }
                    if viol.is_some() { break; }
                }
                classes.insert(trace);
                if viol.is_some() {
                    return (n, classes.len() as u64, viol);
                }
            }
        }
    }
    (n, classes.len() as u64, viol)
}

/// Supplementary: TcpStream / UnixStream wrappers over real socket pairs, fixed sequential scripts.
fn socket_scripts() -> Result<u64, String> {
    use tokio::io::{AsyncReadExt, AsyncWriteExt};
    let rt = tokio::runtime::Builder::new_current_thread().enable_all().build().map_err(|e| e.to_string())?;
    rt.block_on(async {
        let mut n = 0;
        let payload: Vec<u8> = (0..5000u32).map(|i| (i % 251) as u8).collect();
        for cap in [1usize, 2, 8, 4096] {
            // TCP
            let l = tokio::net::TcpListener::bind("127.0.0.1:0").await.map_err(|e| e.to_string())?;
            let addr = l.local_addr().unwrap();
            let (c, s) = tokio::join!(tokio::net::TcpStream::connect(addr), l.accept());
            let mut c = hyperdriver::stream::Braid::from(hyperdriver::stream::TcpStream::client(c.map_err(|e| e.to_string())?));
            let (s, peer) = s.map_err(|e| e.to_string())?;
            let mut s = hyperdriver::stream::TcpStream::server(s, peer);
            let p2 = payload.clone();
            let w = async { c.write_all(&p2).await?; c.shutdown().await };
            let r = async {
                let mut got = vec![];
                let mut buf = vec![0u8; cap];
                loop {
                    let k = s.read(&mut buf).await?;
                    if k == 0 { break; }
                    got.extend_from_slice(&buf[..k]);
                }
                Ok::<_, io::Error>(got)
            };
            let (wr, got) = tokio::join!(w, r);
            wr.map_err(|e| format!("tcp write: {e}"))?;
            if got.map_err(|e| format!("tcp read: {e}"))? != payload { return Err(format!("tcp payload differs with read cap {cap}")); }
            n += 1;
            // Unix
            let (a, mut b) = hyperdriver::stream::UnixStream::pair().map_err(|e| e.to_string())?;
            let mut a = hyperdriver::stream::Braid::from(a);
            let p2 = payload.clone();
            let w = async { a.write_all(&p2).await?; a.shutdown().await };
            let r = async {
                let mut got = vec![];
                let mut buf = vec![0u8; cap];
                loop {
                    let k = b.read(&mut buf).await?;
                    if k == 0 { break; }
                    got.extend_from_slice(&buf[..k]);
                }
                Ok::<_, io::Error>(got)
            };
            let (wr, got) = tokio::join!(w, r);
            wr.map_err(|e| format!("unix write: {e}"))?;
            if got.map_err(|e| format!("unix read: {e}"))? != payload { return Err(format!("unix payload differs with read cap {cap}")); }
            n += 1;
        }
        Ok(n)
    })
}


/// Fold the result of the miri stage (run by ./check before the thorough tier of C08 / C18) into the
/// evidence; undefined behaviour or a reference disagreement found there is a violation, an
/// unavailable stage (toolchain missing, timeout) is recorded and is not a verdict.
fn miri_stage_report(run: &mut Run, prop: &str) {
    let Ok(spec) = std::env::var("HDMC_MIRI_STAGE") else { return };
    let dir = spec.split_whitespace().find_map(|w| w.strip_prefix("dir=")).unwrap_or("").to_string();
    let mut logs: Vec<std::path::PathBuf> = std::fs::read_dir(&dir).map(|d| d.filter_map(|e| e.ok()).map(|e| e.path()).filter(|p| p.extension().map(|x| x == "log").unwrap_or(false)).collect()).unwrap_or_default();
    logs.sort();
    if logs.is_empty() {
        run.cov("miri_stage", "unavailable (no shard logs); not a verdict".to_string());
        return;
    }
    let (mut cases, mut ok_shards, mut summaries) = (0u64, 0u64, vec![]);
    let mut unavailable = vec![];
    for lp in &logs {
        let text = std::fs::read_to_string(lp).unwrap_or_default();
        let log = lp.display().to_string();
        let last_case = text.lines().filter(|l| l.starts_with("miri-case")).last().unwrap_or("").to_string();
        cases += text.lines().filter(|l| l.starts_with("miri-case")).count() as u64;
        if let Some(ok) = text.lines().find(|l| l.starts_with("MIRI-STAGE ok")) {
            ok_shards += 1;
            summaries.push(ok.to_string());
        } else if text.contains("Undefined Behavior") {
            let what = text.lines().find(|l| l.contains("Undefined Behavior")).unwrap_or("").trim().to_string();
            let kind: String = what.split("Undefined Behavior:").nth(1).unwrap_or("").trim().chars().take(70).collect();
            run.violation(format!("miri-ub {kind}"), format!("miri reports {what} while executing {last_case}"), json!({"engine":"miri","property":prop,"case":last_case,"log":log}));
        } else if let Some(d) = text.lines().find(|l| l.starts_with("MIRI-STAGE reference disagrees")) {
            run.violation("miri-reference-disagrees".into(), format!("{d} (under miri, with uninitialised read buffers); {last_case}"), json!({"engine":"miri","property":prop,"case":last_case,"log":log}));
        } else {
            unavailable.push(format!("{} stopped after {} cases", lp.file_name().and_then(|x| x.to_str()).unwrap_or(""), text.lines().filter(|l| l.starts_with("miri-case")).count()));
        }
    }
    run.cov("miri_stage_executions", cases);
    run.cov("miri_stage_shards_completed", format!("{ok_shards}/{}", logs.len()));
    if !unavailable.is_empty() {
        run.cov("miri_stage", format!("partly unavailable ({}); not a verdict", unavailable.join("; ")));
    } else if ok_shards as usize == logs.len() {
        let sum = |key: &str| -> u64 { summaries.iter().filter_map(|l| l.split_whitespace().find_map(|w| w.strip_prefix(key)).and_then(|x| x.parse::<u64>().ok())).sum() };
        run.cov("miri_stage", format!("complete in {} shards: no undefined behaviour, references agree; c18_sequences={} c08_sniff_runs={}", logs.len(), sum("c18_sequences="), sum("c08_sniff_runs=")));
    }
}

// -------------------------------------------------------------------------------------------------
// miri stage (run by ./check for the thorough tier of C08 and C18: `cargo +nightly miri run -- MIRI`)

/// Bounded-exhaustive slice of the C18 operation sequences (every sequence of <= 2 steps over the
/// reduced alphabet, every adapter stack, both inner write flavours) and of the C08 sniff runs (every
/// stream, every composition with <= 1 cut, pending never / before every read, read-back caps 1 and 64),
/// executed under the miri interpreter with genuinely uninitialised read buffers. The same reference
/// oracles apply; in addition miri reports undefined behaviour in the `unsafe` blocks of the
/// adapters (rewind.rs, bridge/io.rs, server/conn/auto.rs) on any of these executions.
pub fn run_miri_stage(which: &str) -> i32 {
    // HDMC_MIRI_SHARD = "i/n": this process executes the cases whose running index is i modulo n
    let (shard, nshards) = std::env::var("HDMC_MIRI_SHARD").ok().and_then(|s| {
        let (a, b) = s.split_once('/')?;
        Some((a.parse::<u64>().ok()?, b.parse::<u64>().ok()?.max(1)))
    }).unwrap_or((0, 1));
    let ads = if which == "C08" { vec![] } else { adapters() };
    let alpha = alphabet(false);
    let mut idx = 0u64;
    let mut n = 0u64;
    for ad in &ads {
        // stacks that are pure dispatch (no unsafe code of their own underneath) get single steps only
        let max_d = if ad.name.starts_with("TlsBraid") || ad.name.ends_with("Stream::new") { 1 } else { 2usize };
        for d in 1..=max_d {
            for code in 0..alpha.len().pow(d as u32) {
                let seq = decode(code, d, &alpha);
                for vectored in [false, true] {
                    if vectored && !seq.iter().any(|s| matches!(s.op, Op::WriteVectored | Op::WriteVectoredB)) {
                        continue;
                    }
                    idx += 1;
                    if idx % nshards != shard {
                        continue;
                    }
                    n += 1;
                    eprintln!("miri-case c18 adapter={:?} seq={seq:?} vectored={vectored}", ad.name);
                    if let Err(m) = run_sequence(ad, &seq, vectored) {
                        println!("MIRI-STAGE reference disagrees: {}: {m}", ad.name);
                        return 1;
                    }
                }
            }
        }
    }
    let mut m = 0u64;
    for (name, stream) in if which == "C18" { vec![] } else { stream_family() } {
        let want_h2 = stream.starts_with(PREFACE);
        let window = stream.len().min(32);
        let mut shapes: Vec<Vec<usize>> = vec![vec![]];
        for cut in 1..window {
            shapes.push(vec![cut]);
        }
        shapes.push(vec![1; window]);
        for chunks in &shapes {
            for pend in [0u64, u64::MAX] {
                for out_cap in [1usize, 64] {
                    idx += 1;
                    if idx % nshards != shard {
                        continue;
                    }
                    m += 1;
                    eprintln!("miri-case c08 stream={name:?} chunks={:?} pending={} out_cap={out_cap}", &chunks[..chunks.len().min(3)], pend != 0);
                    match sniff_once(&stream, chunks, pend, out_cap) {
                        Ok((h2, back)) => {
                            if h2 != want_h2 || back != stream {
                                println!("MIRI-STAGE reference disagrees: sniff {name}: h2={h2} (want {want_h2}), {} of {} bytes read back", back.len(), stream.len());
                                return 1;
                            }
                        }
                        Err(e) => {
                            println!("MIRI-STAGE reference disagrees: sniff {name}: {e}");
                            return 1;
                        }
                    }
                }
            }
        }
    }
    println!("MIRI-STAGE ok shard={shard}/{nshards} c18_sequences={n} c08_sniff_runs={m}");
    0
}
