//! C19 — timeout layer. Part 1: the real `Timeout` service around a scripted inner service in paused
//! virtual time over a complete grid. Part 2 (pool cleanup at every stage) is the pool engine's
//! `Cancel`-in-every-state + probe closure (see poolmc, reported in this evidence file as well).

use crate::evidence::{Args, Run};
use futures_util::FutureExt;
use hyperdriver::service::TimeoutLayer;
use serde_json::json;
use std::cell::RefCell;
use std::collections::BTreeSet;
use std::future::Future;
use std::pin::Pin;
use std::rc::Rc;
use std::task::{Context, Poll};
use std::time::Duration;
use tower::{Layer, Service};

const UNIT_MS: u64 = 10;

#[derive(Default, Debug, Clone)]
struct Log {
    polls: Vec<u64>,
    dropped_at: Option<u64>,
    polled_after_drop_or_result: bool,
    result_seen: bool,
}

struct Inner {
    complete_at: Option<u64>,
    ok: bool,
    token: u32,
    base: tokio::time::Instant,
    sleep: Pin<Box<tokio::time::Sleep>>,
    log: Rc<RefCell<Log>>,
}

fn now_units(base: tokio::time::Instant) -> u64 {
    let ms = tokio::time::Instant::now().duration_since(base).as_millis() as u64;
    assert!(ms % UNIT_MS == 0);
    ms / UNIT_MS
}

impl Future for Inner {
    type Output = Result<u32, String>;
    fn poll(mut self: Pin<&mut Self>, cx: &mut Context<'_>) -> Poll<Self::Output> {
        let now = now_units(self.base);
        {
            let mut l = self.log.borrow_mut();
            l.polls.push(now);
            if l.result_seen {
                l.polled_after_drop_or_result = true;
            }
        }
        if self.complete_at.is_none() {
            return Poll::Pending;
        }
        match self.sleep.as_mut().poll(cx) {
            Poll::Pending => Poll::Pending,
            Poll::Ready(()) => Poll::Ready(if self.ok { Ok(self.token) } else { Err(format!("inner-{}", self.token)) }),
        }
    }
}
impl Drop for Inner {
    fn drop(&mut self) {
        self.log.borrow_mut().dropped_at = Some(now_units(self.base));
    }
}

#[derive(Clone)]
struct Svc {
    complete_at: Option<u64>,
    ok: bool,
    base: tokio::time::Instant,
    log: Rc<RefCell<Log>>,
}
impl Service<u32> for Svc {
    type Response = u32;
    type Error = String;
    type Future = Inner;
    fn poll_ready(&mut self, _: &mut Context<'_>) -> Poll<Result<(), String>> {
        Poll::Ready(Ok(()))
    }
    fn call(&mut self, token: u32) -> Inner {
        Inner {
            complete_at: self.complete_at,
            ok: self.ok,
            token,
            base: self.base,
            sleep: Box::pin(tokio::time::sleep(Duration::from_millis(self.complete_at.unwrap_or(0) * UNIT_MS))),
            log: self.log.clone(),
        }
    }
}

fn timeout_error() -> String {
    "TIMEOUT".to_string()
}

/// One grid point: returns (observation summary, violations as (sub, message)).
async fn timeout_case(c: Option<u64>, ok: bool, d: u64, p: u64, token: u32) -> (serde_json::Value, String, Vec<(String, String)>) {
    timeout_case_lag(c, ok, Duration::from_millis(d * UNIT_MS), p, None, token).await
}

async fn timeout_case_dur(c: Option<u64>, ok: bool, dur: Duration, p: u64, token: u32) -> (serde_json::Value, String, Vec<(String, String)>) {
    timeout_case_lag(c, ok, dur, p, None, token).await
}

/// Durations far beyond any horizon ("effectively no timeout" as callers write it).
fn huge_durations() -> Vec<(&'static str, Duration)> {
    vec![
        ("Duration::MAX", Duration::MAX),
        ("u64::MAX s", Duration::from_secs(u64::MAX)),
        ("i64::MAX s", Duration::from_secs(i64::MAX as u64)),
        ("2^62 s", Duration::from_secs(1 << 62)),
        ("2^40 s", Duration::from_secs(1 << 40)),
        ("100 years", Duration::from_secs(100 * 365 * 86400)),
        ("u64::MAX ns", Duration::from_nanos(u64::MAX)),
        ("u64::MAX ms", Duration::from_millis(u64::MAX)),
    ]
}

/// `lag`: after its first poll (at t=p) the caller is busy and polls again only at t=lag, whatever woke it.
async fn timeout_case_lag(c: Option<u64>, ok: bool, dur: Duration, p: u64, lag: Option<u64>, token: u32) -> (serde_json::Value, String, Vec<(String, String)>) {
    let d: u64 = u64::try_from(dur.as_millis() / UNIT_MS as u128).unwrap_or(u64::MAX);
    let base = tokio::time::Instant::now();
    let log = Rc::new(RefCell::new(Log::default()));
    let svc = Svc { complete_at: c, ok, base, log: log.clone() };
    let mut timed = TimeoutLayer::new(timeout_error, dur).layer(svc);
    // issued at t=0; issuing must not panic either
    let fut = match std::panic::catch_unwind(std::panic::AssertUnwindSafe(|| timed.call(token))) {
        Ok(f) => f,
        Err(_) => {
            let obs = json!({"inner_completes_at": c, "inner_ok": ok, "duration": format!("{dur:?}"), "first_poll": p, "outcome": "panic-at-call"});
            return (obs, "panic".into(), vec![("no result by the deadline (hang or panic)".into(), format!("issuing a request with timeout {dur:?} panicked (inner completes at {c:?})"))]);
        }
    };
    tokio::time::sleep(Duration::from_millis(p * UNIT_MS)).await; // caller polls first at t=p
    let horizon = tokio::time::timeout(Duration::from_millis(100 * UNIT_MS), fut);
    let mut horizon = Box::pin(horizon);
    let mut early = None;
    if let Some(l) = lag {
        // one poll now, then nothing until t = l
        match std::panic::catch_unwind(std::panic::AssertUnwindSafe(|| futures_util::FutureExt::now_or_never(&mut horizon))) {
            Ok(None) => tokio::time::sleep_until(base + Duration::from_millis(l * UNIT_MS)).await,
            Ok(Some(r)) => early = Some(Ok(r)),
            Err(p) => early = Some(Err(p)),
        }
    }
    let r = match early {
        Some(x) => x,
        None => std::panic::AssertUnwindSafe(&mut horizon).catch_unwind().await,
    };
    let t_r = now_units(base);
    log.borrow_mut().result_seen = true;
    tokio::task::yield_now().await;
    drop(horizon); // the caller drops the finished future
    let l = log.borrow().clone();
    // first poll that can see the deadline
    let see = match lag {
        Some(l) if p < d => d.max(l),
        _ => d.max(p),
    };
    let outcome = match &r {
        Err(_) => "panic".to_string(),
        Ok(Err(_)) => "hang".to_string(),
        Ok(Ok(Ok(v))) => format!("ok:{v}"),
        Ok(Ok(Err(e))) => format!("err:{e}"),
    };
    let obs = json!({"inner_completes_at": c, "inner_ok": ok, "duration": d, "first_poll": p, "outcome": outcome, "t_result": t_r, "inner_polls": l.polls, "inner_dropped_at": l.dropped_at});
    let inner_expected = if ok { format!("ok:{token}") } else { format!("err:inner-{token}") };
    let mut v: Vec<(String, String)> = vec![];
    let mut fail = |what: &str| {
        v.push((what.to_string(), format!("{what}: inner completes at {c:?} ({}), duration {d}, first poll at {p}: got {outcome} at t={t_r}; inner polls {:?}, dropped at {:?}", if ok { "Ok" } else { "Err" }, l.polls, l.dropped_at)));
    };
    if outcome == "hang" && c.is_none() && d > 100 {
        // nothing is due before the harness horizon: still pending is the right answer
        return (obs, outcome, v);
    }
    if outcome == "panic" || outcome == "hang" {
        fail("no result by the deadline (hang or panic)");
        return (obs, outcome, v);
    }
    let inner_first = c.map(|c| c < d).unwrap_or(false);
    let inner_allowed = c.map(|c| c <= see).unwrap_or(false);
    if outcome == inner_expected {
        if !inner_allowed {
            fail("inner result returned although it had not resolved");
        } else if t_r != match lag { Some(l) if c.unwrap() > p => c.unwrap().max(l), _ => c.unwrap().max(p) } {
            fail("inner result returned late");
        }
    } else if outcome == "err:TIMEOUT" {
        if inner_first {
            fail("timeout error although the inner service resolved first");
        } else if t_r != see {
            fail("timeout error not delivered at the deadline");
        }
    } else {
        fail("result is neither the inner result unchanged nor the configured timeout error");
    }
    if t_r > see && !inner_first {
        fail("resolved later than the configured duration");
    }
    if l.polled_after_drop_or_result {
        fail("inner future polled after the request resolved");
    }
    if l.dropped_at != Some(t_r) {
        fail("inner work not dropped when the timed-out request was dropped");
    }
    (obs, outcome, v)
}

fn case_sig(c: Option<u64>, d: u64, p: u64, what: &str) -> String {
    let rel = match c { None => "never", Some(c) if c < d => "before", Some(c) if c == d => "at", _ => "after" };
    format!("inner={rel} duration={} first-poll={} problem={what}", if d == 0 { "zero" } else if d > 1_000_000 { "huge" } else { "finite" }, if p == 0 { "immediate" } else if p > d { "after-deadline" } else { "delayed" })
}

fn replay(path: &str) -> i32 {
    let doc: serde_json::Value = serde_json::from_str(&std::fs::read_to_string(path).expect("replay file")).expect("json");
    let rp = doc.get("replay").cloned().unwrap_or(doc);
    if rp.get("engine").and_then(|x| x.as_str()) == Some("poolmc") {
        return crate::poolmc::replay_file(path, "C19");
    }
    let c = rp.get("complete_at").and_then(|x| x.as_u64());
    let ok = rp.get("ok").and_then(|x| x.as_bool()).unwrap_or(true);
    let d = rp.get("duration").and_then(|x| x.as_u64()).unwrap_or(0);
    let p = rp.get("first_poll").and_then(|x| x.as_u64()).unwrap_or(0);
    let rt = tokio::runtime::Builder::new_current_thread().enable_time().start_paused(true).build().unwrap();
    let dur = match rp.get("duration_huge").and_then(|x| x.as_str()) {
        Some(name) => huge_durations().into_iter().find(|(n, _)| *n == name).map(|(_, d)| d).unwrap_or(Duration::MAX),
        None => Duration::from_millis(d * UNIT_MS),
    };
    let lag = rp.get("lag").and_then(|x| x.as_u64());
    let (o1, _, v1) = rt.block_on(timeout_case_lag(c, ok, dur, p, lag, 7));
    let (o2, _, v2) = rt.block_on(timeout_case_lag(c, ok, dur, p, lag, 7));
    if o1 != o2 || v1 != v2 {
        println!("MACHINERY-ERROR replay diverged");
        return 2;
    }
    println!("{o1}");
    if v1.is_empty() {
        println!("replay holds");
        0
    } else {
        for (_, m) in &v1 {
            println!("  {m}");
        }
        println!("VIOLATION property=C19 replay={path}");
        1
    }
}

pub fn run(args: &Args) -> i32 {
    if let Some(p) = &args.replay {
        return replay(p);
    }
    let mut run = Run::new("C19", args.tier, "model_checking");
    let rt = tokio::runtime::Builder::new_current_thread().enable_time().start_paused(true).build().unwrap();
    let completes: Vec<Option<u64>> = vec![Some(0), Some(1), Some(2), Some(3), Some(4), Some(6), None];
    let durations = [0u64, 1, 2, 3, 5];
    let first_polls = [0u64, 1, 2, 4];
    let mut evaluations = 0u64;
    let mut classes = BTreeSet::new();
    let mut samples = vec![];
    rt.block_on(async {
        for &c in &completes {
            for ok in [true, false] {
                for &d in &durations {
                    for &p in &first_polls {
                        evaluations += 1;
                        let (obs, outcome, viols) = timeout_case(c, ok, d, p, 1000 + evaluations as u32).await;
                        classes.insert(format!("{}|{}|{}", outcome.split(':').next().unwrap(), outcome.contains("TIMEOUT"), c.map(|c| c.cmp(&d) as i8 + 1).unwrap_or(9)));
                        if samples.len() < 4 && evaluations % 67 == 3 {
                            samples.push(obs);
                        }
                        for (what, msg) in viols {
                            run.violation(case_sig(c, d, p, &what), msg, json!({"engine":"c19","complete_at":c,"ok":ok,"duration":d,"first_poll":p}));
                        }
                    }
                    // the future changes hands: polled once with one waker (at t=0, or at t=1), then awaited by a task
                    // with another waker — the deadline must wake whoever polled last
                    for first in [0u64, 1] {
                        evaluations += 1;
                        let (_, _, viols) = timeout_case_lag(c, ok, Duration::from_millis(d * UNIT_MS), first, Some(first), 7000 + evaluations as u32).await;
                        for (what, msg) in viols {
                            run.violation(format!("{} waker-changes", case_sig(c, d, first, &what)), format!("{msg}; the future was polled once at t={first} with one waker and then awaited with another"), json!({"engine":"c19","complete_at":c,"ok":ok,"duration":d,"first_poll":first,"lag":first}));
                        }
                    }
                    // a caller that polls once at t=0 and is then busy until just after the deadline
                    {
                        evaluations += 1;
                        let (_, _, viols) = timeout_case_lag(c, ok, Duration::from_millis(d * UNIT_MS), 0, Some(d + 1), 5000 + evaluations as u32).await;
                        for (what, msg) in viols {
                            run.violation(format!("{} caller-lags", case_sig(c, d, 0, &what)), format!("{msg}; the caller polled at t=0 and then not again before t={}", d + 1), json!({"engine":"c19","complete_at":c,"ok":ok,"duration":d,"first_poll":0,"lag":d + 1}));
                        }
                    }
                }
            }
        }
        // durations beyond any horizon: the inner result must come back unchanged, nothing may panic
        for (name, dur) in huge_durations() {
            for &c in &completes {
                for ok in [true, false] {
                    for &p in &[0u64, 2] {
                        evaluations += 1;
                        let (_obs, outcome, viols) = timeout_case_dur(c, ok, dur, p, 5000 + evaluations as u32).await;
                        classes.insert(format!("huge|{}|{}", outcome.split(':').next().unwrap(), c.is_some()));
                        let d = u64::try_from(dur.as_millis() / UNIT_MS as u128).unwrap_or(u64::MAX);
                        for (what, msg) in viols {
                            run.violation(case_sig(c, d, p, &what), msg, json!({"engine":"c19","complete_at":c,"ok":ok,"duration_huge":name,"first_poll":p}));
                        }
                    }
                }
            }
        }
    });
    run.cov("evaluations", evaluations);
    run.cov("distinct_nontrivial", classes.len() as u64);
    run.cov("rule_part1", "part 1: complete grid inner completion time {0,1,2,3,4,6,never} x inner result {Ok,Err} x duration {0,1,2,3,5} x caller's first poll {0,1,2,4} (units of 10ms, paused tokio clock) through the real TimeoutLayer, plus durations beyond any horizon {Duration::MAX, u64::MAX s, i64::MAX s, 2^62 s, 2^40 s, 100 years, u64::MAX ns, u64::MAX ms} x inner completion x result x first poll {0,2}; distinct = (outcome kind, is-timeout, inner vs deadline order)");
    run.cov("exhaustive", true);
    run.cov("samples", samples);
    run.assume("a future cannot resolve before it is polled: with the first poll at p the deadline is observed at max(duration,p); inner result is accepted iff it completed by then");
    run.cov("part1_timeout_grid_cases", evaluations);
    // Part 2: "cleans up at every stage". The timeout's only effect on the pool is dropping the inner
    // ResponseFuture; the pool engine applies Cancel(r) in every reachable state (waiting for its own
    // dial, waiting on another request's dial, handshaking, exchange in flight) and then requires a fresh
    // probe request per origin to complete from every quiescent state.
    std::panic::set_hook(Box::new(|_| {}));
    // Part 3: the composition itself — real client with a 1 s request timeout, real server, paused
    // virtual time under the deterministic executor; the clock is moved past the deadline at every
    // scheduling point (one kind of deviation); a follow-up request must then succeed.
    let (e2e_n, e2e_d, e2e_v, e2e_mach) = crate::schedmc::c19e2e::run_all(args.tier.is_thorough());
    for (sig, what, rp) in e2e_v {
        run.violation(sig, what, rp);
    }
    run.cov("part3_timeout_over_pool_schedules", e2e_n);
    run.cov("part3_distinct_traces", e2e_d);
    if let Some(m) = e2e_mach {
        let _ = std::panic::take_hook();
        println!("MACHINERY-ERROR {m}");
        let _ = run.finish();
        return 2;
    }
    let err = crate::poolmc::run_into(&mut run, "C19", args.tier.is_thorough());
    let _ = std::panic::take_hook();
    if let Some(m) = err {
        println!("MACHINERY-ERROR {m}");
        let _ = run.finish();
        return 2;
    }
    run.finish()
}
