//! C20 — SNI validation middleware: complete grid against a reference predicate from the statement.

use crate::evidence::{Args, Run};
use futures_util::FutureExt;
use hyperdriver::info::TlsConnectionInfo;
use hyperdriver::server::conn::tls::sni::ValidateSNI;
use serde_json::json;
use std::collections::BTreeSet;
use std::convert::Infallible;
use tower::{Layer, Service};

#[derive(Clone, Debug, PartialEq, Eq, PartialOrd, Ord)]
enum Outcome {
    Forwarded { validated: bool },
    Rejected,
    Panicked,
    NotReady,
}

fn host_without_port(h: &str) -> &str {
    if h.starts_with('[') {
        match h.find(']') {
            Some(i) => &h[..=i],
            None => h,
        }
    } else {
        match h.rfind(':') {
            Some(i) => &h[..i],
            None => h,
        }
    }
}

fn run_case(version: http::Version, host: Option<&str>, uri: &str, sni: Option<&str>, tls: bool) -> Outcome {
    let seen = std::sync::Arc::new(std::sync::Mutex::new(None::<bool>));
    let seen2 = seen.clone();
    let inner = tower::service_fn(move |req: http::Request<()>| {
        let v = req
            .extensions()
            .get::<TlsConnectionInfo>()
            .map(|t| t.validated_server_name)
            .unwrap_or(false);
        *seen2.lock().unwrap() = Some(v);
        async move { Ok::<_, Infallible>(http::Response::new(())) }
    });
    let mut svc = ValidateSNI.layer(inner);
    let mut b = http::Request::builder().version(version).uri(uri);
    if let Some(h) = host {
        b = b.header(http::header::HOST, h);
    }
    let mut req = b.body(()).unwrap();
    if tls {
        req.extensions_mut().insert(TlsConnectionInfo {
            server_name: sni.map(|s| s.to_string()),
            ..TlsConnectionInfo::default()
        });
    }
    let r = std::panic::catch_unwind(std::panic::AssertUnwindSafe(|| svc.call(req).now_or_never()));
    match r {
        Err(_) => Outcome::Panicked,
        Ok(None) => Outcome::NotReady,
        Ok(Some(Ok(_))) => Outcome::Forwarded {
            validated: seen.lock().unwrap().unwrap_or(false),
        },
        Ok(Some(Err(_))) => Outcome::Rejected,
    }
}

/// One service instance (and a clone taken after its first use) serving two requests in a row: the verdict on
/// the second request must be the verdict the same request gets from a fresh instance.
fn run_after(first: (http::Version, Option<&str>, &str, Option<&str>), second: (http::Version, Option<&str>, &str, Option<&str>), use_clone: bool) -> Outcome {
    let seen = std::sync::Arc::new(std::sync::Mutex::new(None::<bool>));
    let seen2 = seen.clone();
    let inner = tower::service_fn(move |req: http::Request<()>| {
        let v = req.extensions().get::<TlsConnectionInfo>().map(|t| t.validated_server_name).unwrap_or(false);
        *seen2.lock().unwrap() = Some(v);
        async move { Ok::<_, Infallible>(http::Response::new(())) }
    });
    let mut svc = ValidateSNI.layer(inner);
    let build = |(version, host, uri, sni): (http::Version, Option<&str>, &str, Option<&str>)| {
        let mut b = http::Request::builder().version(version).uri(uri);
        if let Some(h) = host {
            b = b.header(http::header::HOST, h);
        }
        let mut req = b.body(()).unwrap();
        req.extensions_mut().insert(TlsConnectionInfo { server_name: sni.map(|s| s.to_string()), ..TlsConnectionInfo::default() });
        req
    };
    let r = std::panic::catch_unwind(std::panic::AssertUnwindSafe(|| {
        let _ = svc.call(build(first)).now_or_never();
        *seen.lock().unwrap() = None;
        if use_clone {
            let mut c = svc.clone();
            c.call(build(second)).now_or_never()
        } else {
            svc.call(build(second)).now_or_never()
        }
    }));
    match r {
        Err(_) => Outcome::Panicked,
        Ok(None) => Outcome::NotReady,
        Ok(Some(Ok(_))) => Outcome::Forwarded { validated: seen.lock().unwrap().unwrap_or(false) },
        Ok(Some(Err(_))) => Outcome::Rejected,
    }
}

/// Connection level: the real per-connection stack (TLS-terminating acceptor over an in-memory stream, real
/// rustls handshake, `TlsConnectionInfoLayer`, `ValidateSNIService`). Before the server side of the handshake
/// has run, `early` request futures are created, polled `polls` times and dropped; then the handshake
/// completes and three requests follow. Their verdicts must be the reference's, whatever happened before.
fn connection_level_runs() -> Result<(u64, Vec<(String, String)>), String> {
    use crate::schedmc::tlsfix;
    use hyperdriver::client::conn::transport::duplex::DuplexTransport;
    use hyperdriver::client::conn::transport::TransportExt as _;
    use hyperdriver::client::conn::Transport as _;
    use hyperdriver::server::conn::tls::sni::ValidateSNIService;
    use hyperdriver::server::conn::tls::TlsConnectionInfoLayer;
    use hyperdriver::server::conn::AcceptExt as _;
    use hyperdriver::stream::tls::TlsHandshakeStream as _;
    use hyperdriver::IntoRequestParts as _;
    let server_cfg = tlsfix::server_config("examplecom", &[])?;
    let client_cfg = std::sync::Arc::new(tlsfix::client_config(&[])?);
    let rt = tokio::runtime::Builder::new_current_thread().enable_all().build().map_err(|e| e.to_string())?;
    let mut runs = 0u64;
    let mut viols = vec![];
    for early in 0..=2usize {
        for polls in 0..=2usize {
            if early == 0 && polls > 0 {
                continue;
            }
            runs += 1;
            let (server_cfg, client_cfg) = (server_cfg.clone(), client_cfg.clone());
            let out: Result<Vec<(String, String)>, String> = rt.block_on(async move {
                let seen: std::sync::Arc<std::sync::Mutex<Vec<(String, Option<TlsConnectionInfo>)>>> = Default::default();
                let seen2 = seen.clone();
                let app = tower::service_fn(move |req: http::Request<hyperdriver::Body>| {
                    let host = req.headers().get(http::header::HOST).and_then(|h| h.to_str().ok()).unwrap_or("").to_string();
                    seen2.lock().unwrap().push((host, req.extensions().get::<TlsConnectionInfo>().cloned()));
                    async move { Ok::<_, Infallible>(http::Response::new(hyperdriver::Body::empty())) }
                });
                let (client, incoming) = hyperdriver::stream::duplex::pair();
                let acceptor = hyperdriver::server::conn::Acceptor::from(incoming).with_tls(server_cfg);
                let mut transport = DuplexTransport::new(1024, client).with_tls(client_cfg);
                let client_side = async move {
                    let mut stream = transport.connect("https://example.com".into_request_parts()).await.map_err(|e| format!("client connect: {e}"))?;
                    stream.finish_handshake().await.map_err(|e| format!("client handshake: {e}"))?;
                    Ok::<_, String>(stream)
                };
                let request = |host: &str| http::Request::builder().uri("/").header(http::header::HOST, host).body(hyperdriver::Body::empty()).unwrap();
                let server_side = async move {
                    let mut conn = acceptor.accept().await.map_err(|e| format!("accept: {e}"))?;
                    let mut make_service = TlsConnectionInfoLayer::new().layer(tower::make::Shared::new(ValidateSNIService::new(app)));
                    let mut svc = Service::call(&mut make_service, &conn).await.map_err(|_| "make service".to_string())?;
                    for _ in 0..early {
                        let mut fut = Box::pin(Service::call(&mut svc, request("example.com")));
                        for _ in 0..polls {
                            if futures_util::poll!(&mut fut).is_ready() {
                                break;
                            }
                        }
                        drop(fut);
                    }
                    conn.finish_handshake().await.map_err(|e| format!("server handshake: {e}"))?;
                    let other = Service::call(&mut svc, request("other.example.org")).await.is_ok();
                    let same = Service::call(&mut svc, request("EXAMPLE.com:443")).await.is_ok();
                    let plain = Service::call(&mut svc, request("example.com")).await.is_ok();
                    Ok::<_, String>((conn, other, same, plain))
                };
                let joined = tokio::time::timeout(std::time::Duration::from_secs(30), async { tokio::join!(client_side, server_side) }).await.map_err(|_| "connection-level run hung".to_string())?;
                let (_stream, (_conn, other, same, plain)) = (joined.0?, joined.1?);
                let mut v = vec![];
                if other {
                    v.push(("connection-level mismatching-host-forwarded".to_string(), "a request for other.example.org on a connection whose server name is example.com was forwarded".to_string()));
                }
                if !same || !plain {
                    v.push(("connection-level matching-host-rejected".to_string(), format!("a request naming the server name was rejected (EXAMPLE.com:443 -> {same}, example.com -> {plain})")));
                }
                for (host, tls) in seen.lock().unwrap().iter() {
                    match tls {
                        Some(t) if t.validated_server_name && t.server_name.as_deref() == Some("example.com") => {}
                        other => v.push(("connection-level forwarded-without-validated-mark".to_string(), format!("the application saw the request for {host} with TLS info {other:?}"))),
                    }
                }
                Ok(v)
            });
            match out {
                Ok(v) => {
                    for (sig, what) in v {
                        viols.push((sig, format!("{what}; {early} earlier request(s) on the connection were created, polled {polls} time(s) and dropped before the handshake completed")));
                    }
                }
                Err(e) => return Err(e),
            }
        }
    }
    Ok((runs, viols))
}

fn expected_forward(version: http::Version, host: Option<&str>, uri: &str, sni: Option<&str>) -> Option<bool> {
    let parsed: http::Uri = uri.parse().ok()?;
    let authority = parsed.authority().map(|a| a.as_str().to_string());
    let named: Option<String> = if version == http::Version::HTTP_2 { authority.or(host.map(|h| h.to_string())) } else { host.map(|h| h.to_string()) };
    let named = named?;
    Some(sni.map(|s| host_without_port(&named).eq_ignore_ascii_case(s)).unwrap_or(false))
}

fn replay(path: &str) -> i32 {
    let doc: serde_json::Value = serde_json::from_str(&std::fs::read_to_string(path).expect("replay file")).expect("json");
    let rp = doc.get("replay").cloned().unwrap_or(doc);
    if rp.get("engine").and_then(|x| x.as_str()) == Some("c20-pair") {
        // the pair stage is small: re-run the whole check
        let args = Args { id: "C20".into(), tier: crate::evidence::Tier::Quick, replay: None, extra: vec![] };
        let rc = run(&args);
        if rc == 1 {
            println!("VIOLATION property=C20 replay={path}");
        }
        return rc;
    }
    let version = match rp.get("version").and_then(|x| x.as_str()) {
        Some("HTTP/1.0") => http::Version::HTTP_10,
        Some("HTTP/2.0") => http::Version::HTTP_2,
        _ => http::Version::HTTP_11,
    };
    let host = rp.get("host").and_then(|x| x.as_str());
    let uri = rp.get("uri").and_then(|x| x.as_str()).unwrap_or("/");
    let sni = rp.get("sni").and_then(|x| x.as_str());
    std::panic::set_hook(Box::new(|_| {}));
    let got = run_case(version, host, uri, sni, true);
    let _ = std::panic::take_hook();
    let want = expected_forward(version, host, uri, sni);
    println!("version {version:?} Host {host:?} uri {uri} sni {sni:?}: outcome {got:?}, reference: {}", match want { None => "no host named (don't care)".to_string(), Some(true) => "forward, marked validated".into(), Some(false) => "reject".into() });
    let ok = match (want, &got) {
        (_, Outcome::Panicked | Outcome::NotReady) => false,
        (None, _) => true,
        (Some(true), Outcome::Forwarded { validated: true }) => true,
        (Some(false), Outcome::Rejected) => true,
        _ => false,
    };
    if ok {
        println!("replay holds");
        0
    } else {
        println!("VIOLATION property=C20 replay={path}");
        1
    }
}

pub fn run(args: &Args) -> i32 {
    if let Some(p) = &args.replay {
        return replay(p);
    }
    let mut run = Run::new("C20", args.tier, "model_checking");
    std::panic::set_hook(Box::new(|_| {}));
    let thorough = args.tier.is_thorough();
    let versions: Vec<http::Version> = if thorough { vec![http::Version::HTTP_09, http::Version::HTTP_10, http::Version::HTTP_11, http::Version::HTTP_2, http::Version::HTTP_3] } else { vec![http::Version::HTTP_10, http::Version::HTTP_11, http::Version::HTTP_2] };
    let mut hosts: Vec<Option<&str>> = vec![
        None,
        Some("example.com"),
        Some("EXAMPLE.com"),
        Some("example.com:443"),
        Some("Example.Com:8443"),
        Some("other.test"),
        Some("other.test:443"),
        Some("[::1]"),
        Some("[::1]:443"),
        Some("127.0.0.1"),
        Some("127.0.0.1:80"),
        Some("localhost"),
    ];
    if thorough {
        hosts.extend([Some("example.com:0"), Some("example.com:65535"), Some("xn--exmple-cua.com"), Some("XN--EXMPLE-CUA.COM:443"), Some("a-b.example.com"), Some("[2001:db8::1]:443"), Some("10.0.0.1:8443"), Some("LOCALHOST:80")]);
    }
    let mut uris = vec![
        "/",
        "https://example.com/",
        "https://EXAMPLE.COM/x",
        "https://example.com:8443/",
        "https://other.test/",
        "https://[::1]/",
        "https://[::1]:8443/",
        "https://127.0.0.1/",
        "https://localhost:443/",
    ];
    if thorough {
        uris.extend(["https://xn--exmple-cua.com/", "https://a-b.example.com:8443/p?q", "https://[2001:db8::1]/", "http://example.com/", "https://LOCALHOST/"]);
    }
    // (a server name that is an address literal: TLS itself never carries one, but the layer compares whatever the
    // connection information reports, and a bracketed literal has colons that are not a port separator)
    hosts.push(Some("[::2]"));
    let mut snis: Vec<Option<&str>> = vec![None, Some("example.com"), Some("Example.COM"), Some("other.test"), Some("localhost"), Some("[::1]")];
    if thorough {
        snis.extend([Some("[2001:db8::1]"), Some("127.0.0.1"), Some("xn--exmple-cua.com"), Some("a-b.example.com"), Some("LOCALHOST"), Some("example.org")]);
    }
    let mut evaluations = 0u64;
    let mut classes = BTreeSet::new();
    let mut samples = vec![];
    for &version in &versions {
        for &host in &hosts {
            for &uri in &uris {
                for &sni in &snis {
                    evaluations += 1;
                    let got = run_case(version, host, uri, sni, true);
                    let parsed: http::Uri = uri.parse().unwrap();
                    let authority = parsed.authority().map(|a| a.as_str().to_string());
                    let named: Option<String> = if version == http::Version::HTTP_2 {
                        authority.clone().or(host.map(|h| h.to_string()))
                    } else {
                        host.map(|h| h.to_string())
                    };
                    let class = format!(
                        "{version:?}|named={}|sni={}|{:?}",
                        named.is_some(),
                        sni.is_some(),
                        got
                    );
                    classes.insert(class);
                    if samples.len() < 5 && evaluations % 311 == 7 {
                        samples.push(json!({"version": format!("{version:?}"), "host": host, "uri": uri, "sni": sni, "outcome": format!("{got:?}")}));
                    }
                    let mut fail = |what: &str, run: &mut Run| {
                        // signature = input class, not the literal input
                        let hk = |h: &str| -> String {
                            let bare = host_without_port(h);
                            let mut k = String::new();
                            k.push_str(if bare.starts_with('[') { "v6" } else if bare.parse::<std::net::Ipv4Addr>().is_ok() { "v4" } else { "name" });
                            if bare.len() != h.len() { k.push_str("+port"); }
                            k
                        };
                        let rel = match (&named, sni) {
                            (Some(n), Some(s)) => {
                                let b = host_without_port(n);
                                if b == s { "equal" } else if b.eq_ignore_ascii_case(s) { "equal-ignoring-case" } else { "different" }
                            }
                            (Some(_), None) => "no-sni",
                            (None, _) => "unnamed",
                        };
                        let src = if version == http::Version::HTTP_2 { if authority.is_some() { "authority" } else { "host-header-fallback" } } else { "host-header" };
                        let sig = format!("version={version:?} host-from={src} host-kind={} relation={rel} problem={what}", named.as_deref().map(hk).unwrap_or_default());
                        run.violation(sig, format!("{what}: version={version:?} Host={host:?} uri={uri} sni={sni:?} outcome={got:?}"),
                            json!({"engine":"c20","version":format!("{version:?}"),"host":host,"uri":uri,"sni":sni}));
                    };
                    if matches!(got, Outcome::Panicked | Outcome::NotReady) {
                        fail("middleware panicked or did not resolve", &mut run);
                        continue;
                    }
                    let Some(named_h) = named.clone() else { continue }; // statement is silent
                    let should_forward = sni.map(|s| host_without_port(&named_h).eq_ignore_ascii_case(s)).unwrap_or(false);
                    match (&got, should_forward) {
                        (Outcome::Forwarded { validated: true }, true) => {}
                        (Outcome::Forwarded { validated: false }, true) => fail("forwarded-without-validated-mark", &mut run),
                        (Outcome::Rejected, true) => fail("matching-host-rejected", &mut run),
                        (Outcome::Rejected, false) => {}
                        (Outcome::Forwarded { .. }, false) => fail("mismatching-or-missing-sni-forwarded", &mut run),
                        _ => unreachable!(),
                    }
                }
            }
        }
    }
    // Histories: every ordered pair of a reduced grid through ONE service instance (and through a clone taken
    // after its first use); the second request's verdict must not depend on the first (differential against a
    // fresh instance, no hand-written expectation).
    let mut pairs = 0u64;
    {
        let mut grid: Vec<(http::Version, Option<&str>, &str, Option<&str>)> = vec![];
        for v in [http::Version::HTTP_11, http::Version::HTTP_2] {
            for h in [None, Some("example.com"), Some("other.test")] {
                for u in ["/", "https://example.com/"] {
                    for sn in [None, Some("example.com"), Some("other.test"), Some("EXAMPLE.com")] {
                        grid.push((v, h, u, sn));
                    }
                }
            }
        }
        'outer: for &a in &grid {
            for &b in &grid {
                let fresh = run_case(b.0, b.1, b.2, b.3, true);
                for use_clone in [false, true] {
                    pairs += 1;
                    let got = run_after(a, b, use_clone);
                    if got != fresh {
                        run.violation(
                            format!("verdict-depends-on-earlier-request clone={use_clone}"),
                            format!("after serving {a:?}, the same service instance{} gives {got:?} for {b:?}; a fresh instance gives {fresh:?}", if use_clone { " (cloned after first use)" } else { "" }),
                            json!({"engine":"c20-pair","first":format!("{a:?}"),"second":format!("{b:?}"),"clone":use_clone}),
                        );
                        break 'outer;
                    }
                }
            }
        }
    }
    evaluations += pairs;
    run.cov("request_pairs_through_one_instance", pairs);
    // Connection level: the real TLS acceptor, handshake, info layer and SNI service
    match connection_level_runs() {
        Ok((n, v)) => {
            run.cov("connection_level_runs_with_real_handshake", n);
            evaluations += n;
            for (sig, what) in v {
                run.violation(sig, what, json!({"engine":"c20-pair"}));
            }
        }
        Err(e) => {
            let _ = std::panic::take_hook();
            println!("MACHINERY-ERROR connection-level stage: {e}");
            let _ = run.finish();
            return 2;
        }
    }
    // Requests that did not arrive over TLS are outside the statement; they must merely not panic.
    for &version in &versions {
        for &host in &hosts {
            evaluations += 1;
            if run_case(version, host, "/", None, false) == Outcome::Panicked {
                run.violation("non-tls panic".into(), format!("panic without TLS info: {version:?} {host:?}"), json!({"engine":"c20","tls":false}));
            }
        }
    }
    let _ = std::panic::take_hook();
    run.cov("evaluations", evaluations);
    run.cov("distinct_nontrivial", classes.len() as u64);
    run.cov("rule", "full cross product version{1.0,1.1,2} (thorough: also 0.9 and 3, more host/URI/SNI forms) x Host header (12 values: absent, names, case variants, ports, IPv4, bracketed IPv6) x URI (9: origin-form and absolute with authority variants) x SNI{absent, equal, case-variant, other, localhost}; distinct = (version, host named?, sni present?, outcome)");
    run.cov("exhaustive", true);
    run.cov("samples", samples);
    run.assume("named host: Host header for HTTP/1.x; authority, failing that Host header, for HTTP/2 (statement)");
    run.assume("cases naming no host are don't-care except for panics");
    run.finish()
}
