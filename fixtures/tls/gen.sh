#!/bin/sh
# Regenerates the extra test certificates (committed; not needed at check time).
set -e
CA=/repo/tests/minica/minica.pem
CAKEY=/repo/tests/minica/minica-key.pem
mk() { # name san ca cakey
  openssl ecparam -name prime256v1 -genkey -noout -out $1.key.sec1.pem
  openssl pkcs8 -topk8 -nocrypt -in $1.key.sec1.pem -out $1.key.pem
  openssl req -new -key $1.key.pem -subj "/CN=$1" -out $1.csr
  printf "subjectAltName=$2\nbasicConstraints=CA:FALSE\nkeyUsage=digitalSignature\nextendedKeyUsage=serverAuth\n" > $1.ext
  openssl x509 -req -in $1.csr -CA $3 -CAkey $4 -CAserial ./ca.srl -CAcreateserial -days 36500 -sha256 -extfile $1.ext -out $1.cert.pem
  rm -f $1.csr $1.ext $1.key.sec1.pem
}
mk iphost "DNS:localhost,IP:127.0.0.1,IP:::1" $CA $CAKEY
mk examplecom "DNS:example.com,DNS:example.org" $CA $CAKEY
mk othername "DNS:other.test" $CA $CAKEY
# an untrusted root with a leaf for example.com
openssl ecparam -name prime256v1 -genkey -noout -out rogue-ca.key.pem
openssl req -x509 -new -key rogue-ca.key.pem -subj "/CN=rogue root" -days 36500 -sha256 -addext "basicConstraints=critical,CA:TRUE" -addext "keyUsage=keyCertSign,cRLSign" -out rogue-ca.pem
mk rogue-examplecom "DNS:example.com" rogue-ca.pem rogue-ca.key.pem
rm -f *.srl rogue-ca.key.pem
