#!/usr/bin/env python3
"""Print a markdown table of what the evidence files say was covered.
usage: tools/evidence_table.py [evidence-dir ...]   (default: /verif/evidence)"""
import json, sys, glob, os
dirs = sys.argv[1:] or ['/verif/evidence']
KEYS = ['evaluations', 'states', 'transitions', 'distinct_nontrivial', 'schedules_executed_twice_and_compared', 'merge_audits', 'miri_stage_executions', 'request_pairs_executed', 'composition_runs_real_sockets', 'exhaustive']
for d in dirs:
    print(f"\n**{d}**\n")
    print("| id | tier | wall s | " + " | ".join(KEYS) + " |")
    print("|---|---|---|" + "---|" * len(KEYS))
    for f in sorted(glob.glob(os.path.join(d, 'C*.json'))):
        e = json.load(open(f)); c = e['coverage']
        row = [e['property_id'], e['tier'], f"{e['wall_s']:.1f}"] + [str(c.get(k, '')) for k in KEYS]
        print("| " + " | ".join(row) + " |")
