#!/bin/bash
# usage: tools/reeval_seeds.sh [seed dirs...]  — re-run, for every kept seeded change, the quick checks that
# were recorded as catching it (meta.json caught_by) against the current checks; prints one line per seed.
# Applies each patch to /repo and undoes it (like tools/eval_seed.sh); nothing else may use /repo meanwhile.
cd /verif
seeds="$@"; [ -z "$seeds" ] && seeds=$(ls -d seeded/c*/ | sort)
for d in $seeds; do
  d=${d%/}
  ids=$(python3 -c "import json,sys; m=json.load(open('$d/meta.json')); print(' '.join(m['quick_checks_against_it'].get('caught_by') or []))")
  [ -z "$ids" ] && { echo "$d: no recorded catching check"; continue; }
  tools/eval_seed.sh $d/patch.diff $ids | tail -1
done
