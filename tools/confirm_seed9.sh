#!/bin/bash
# usage: tools/confirm_seed9.sh <ID> [features]   (SEED_ROOT, default /tmp/seed9)
# In the scratch worktree $SEED_ROOT/<ID>: (a) pinned suite with the change (no demo) passes, (b) demo/seed_demo.rs fails
# with the change, (c) passes without it. Prints one CONFIRM line.
id="$1"; feats="$2"; root=${SEED_ROOT:-/tmp/seed9}; wt=$root/$id; out=$root/$id.out
cd "$wt" || exit 2
export CARGO_NET_OFFLINE=true
git checkout -q -- . ; git clean -fdq -- tests examples src 2>/dev/null
git apply "$out/patch.diff" || { echo "CONFIRM $id: patch does not apply"; exit 1; }
suite=$(timeout 1800 cargo test --workspace --no-fail-fast --offline 2>&1 | grep -E "^test result" | awk '{p+=$4; f+=$6} END{print p" passed "f" failed"}')
cp "$out/demo/seed_demo.rs" tests/seed_demo.rs
[ -d "$out/demo/tests" ] && cp -r "$out/demo/tests/." tests/ 2>/dev/null
for d in "$out"/demo/*/ ; do b=$(basename "$d"); [ "$b" != tests ] && [ -d "$d" ] && cp -r "$d" tests/ ; done
fa=""; [ -n "$feats" ] && fa="--features $feats"
with=$(timeout 1200 cargo test --offline $fa --test seed_demo 2>&1 | grep -E "^test result|^error(\[|:)" | head -3 | tr '\n' ' ')
git apply -R "$out/patch.diff"
without=$(timeout 1200 cargo test --offline $fa --test seed_demo 2>&1 | grep -E "^test result|^error(\[|:)" | head -3 | tr '\n' ' ')
echo "CONFIRM $id: suite with change: $suite | demo($feats) with change: $with | demo without change: $without"
git checkout -q -- . ; git clean -fdq -- tests examples src 2>/dev/null
