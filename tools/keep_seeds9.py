#!/usr/bin/env python3
"""Copy confirmed seeded changes of round 9 (/tmp/seed9, suffix i) and the round-8 changes reconstructed from their
descriptions (/tmp/seed8r, suffix h) into /verif/seeded/<id>/ with a meta.json.
usage: keep_seeds9.py <root> <suffix> <confirm-log-glob> <eval-asis-log|-> <eval-final-log>"""
import json, os, re, shutil, glob, sys

NEEDS_I = {
 "C01": ("HttpConnection::send_request keeps HTTP/1.0 as the request's version on an HTTP/1 connection (other versions are still rewritten to 1.1)", "an HTTP/1.0 request with a streamed body of unknown length: hyper only uses chunked encoding for HTTP/1.1, the body is sent with length 0; 200 OK, the server saw an empty body"),
 "C02": ("Pooled gains a `ready` flag set by its own poll_ready; when set, Pooled::drop skips the wait for readiness and hands the connection straight back", "an inner service that polls the connection for readiness before it sends (tower's contract), a connection type whose is_open stays true while busy, the next request arriving while the previous response is still being consumed"),
 "C03": ("the delayed-drop arm of Checkout::poll cancels the in-flight marker at once when its connector fails, and PinnedDrop skips the cancel when the attempt has finished", "continue_after_preemption=false and an HTTP/2 attempt that fails; or an HTTP/2-version request served by an exclusive HTTP/1.1 connection: the marker outlives its owner, waiters and later requests stay pending forever"),
 "C04": ("PoolInner::push takes the waiter queue with remove() instead of get_mut() ('do not leave empty queues behind')", ">=2 checkouts registered as waiters when an HTTP/1.1 connection is released: the queue is dropped after the first taker, the others stop listening and dial although an idle connection exists (or fail with 'pool closed')"),
 "C05": ("IdleConnections memoises next_expiry = now + idle_timeout at a pop that compared ages; later pops skip the age comparison until that instant", ">=2 idle connections, a check-out at time s that leaves an older entry Y behind, a later check-out reaching Y while Y.at + T < t < s + T"),
 "C06": ("Token::multiplexed(): HTTP/2 checkouts use the next integer after the origin's token, which is the next origin's token", "two origins first seen back to back, HTTP/2 requests to the earlier one and HTTP/1.x requests to the later one: they share idle list, waiter queue and in-flight marker"),
 "C07": ("on the signal GracefulShutdown::poll sends the shutdown and then waits for the (previously dead) `finished` channel instead of returning; the accept step is no longer gated", "at least one busy connection when the signal resolves: the server future does not complete until it closes (never, for a stalled client) and new connections are still accepted"),
 "C08": ("the sniffer decides once 16 bytes (the preface's request line) have matched", "a stream whose first 16..23 bytes match the preface and then diverge or end, with a read boundary after byte 16 and before the diverging byte: served as HTTP/2 for that fragmentation, as HTTP/1 in one read"),
 "C09": ("the Unix acceptor records the peer address with UnixAddr::try_from(remote).ok(); peer_addr() then falls back to the socket, repeats the failing conversion and info() hits its expect", "a Unix-domain client bound to a non-UTF-8 path: the panic inside the accept loop ends the serving future"),
 "C10": ("the stagger loop and the drain loop of EyeballSet::process_all are merged; when the stagger timer fires with the queue empty the operation returns Timeout", "a stagger delay Some(d) and a started candidate still undecided d after the last candidate was started (slow accept, slow failure, or hang without overall deadline)"),
 "C11": ("EyeballSet.queue becomes a Vec; the initial batch is drained from the front, later candidates are popped from the back", "at least initial_concurrency + 2 candidates and no success before the first further start: start order A,B,E,D,C"),
 "C12": ("UriKey compares host (case-insensitively) and effective port; the scheme is dropped from the pool key", "one pooled client with TLS configured, http://h:p then https://h:p (or ws/wss): the https request rides the idle plaintext connection, readable, no handshake, 200"),
 "C13": ("check_http1_request reads the scheme before authority_form strips it, which revives a dead branch: CONNECT with an https URI is rewritten to origin-form", "method CONNECT, URI scheme https, HTTP/1 connection: `CONNECT / HTTP/1.1` on the wire"),
 "C14": ("Checkout::new arms the delayed drop when continue_after_preemption || owns_attempt", "continue_after_preemption=false, the first HTTP/2 request to an origin dropped while its dial is pending: the attempt is continued in the background instead of being dropped"),
 "C15": ("TokenMap::insert_pruning drops keys whose token the pool does not track (pending attempt, idle list, open waiter) when a new key is inserted; checked-out connections are not counted", ">=2 origins; origin X has all its connections in use when origin Y is seen for the first time; X's connections are released into the old token's idle list, X's next request gets a fresh token: two idle lists for one origin, 2 x max_idle_per_host"),
 "C16": ("TcpTransport::connecting sorts only when there are more than two addresses", "an answer of exactly two addresses, one per family, the non-preferred family first"),
 "C17": ("UriKey appends the scheme's default port to an authority without one via format!(..).parse().expect(..)", "an authority with a colon but no usable port (`http://host:/`, `http://[::1]:/`, `http://host:99999/`): panic in the caller's task"),
 "C18": ("the hyper-to-tokio read direction of TokioIo gets a fast path for buffers that are already initialised, handing `initialized_mut()` (which includes the filled part) to the inner reader", "a ReadBuf that is partly filled with initialised room behind the filled part (read_exact over two pieces, a re-used zeroed buffer): delivered bytes are overwritten, stale bytes reported as data, or advance panics"),
 "C19": ("TimeoutLayer and FollowRedirectLayer swap places in Builder::build_service: every redirect hop gets a fresh timer", "a client with both a timeout and a redirect policy (the default), a followed redirect whose hops are individually shorter than the timeout but together longer"),
 "C20": ("ValidateSNIService caches the parsed server name; later requests are compared with the cached name", "one service instance (or a clone taken after first use) serving requests of several connections: a request with another or no server name after one with a parsable name"),
}


NEEDS_J = {
 "C01": ("the hyper-to-tokio read direction of TokioIo is rewritten without `unsafe`: it hands hyper `initialized_mut()`, which includes the already filled prefix", "an upgraded connection wrapped as a tokio reader and a message that arrives in several pieces under read_exact: earlier bytes are overwritten, the tail is zeros (or advance panics)"),
 "C02": ("WhenReady remembers that it polled the connection once and got 'not ready'; on any later poll it finishes at once without asking again", "a connection type whose is_open stays true while busy, the hand-back task polled a second time while the connection is still busy (a spurious wake-up, e.g. one per body chunk), another request for the origin"),
 "C03": ("Pool::checkout holds the pool lock only for the book-keeping: the decision (idle connection / wait for the in-flight attempt / own attempt) is taken under one acquisition and acted on under a second", "TWO THREADS: the owner's attempt ends (cancel, failure or completion) on another thread between the two acquisitions of a newcomer's `call`: the newcomer registers as a pure waiter of an attempt that no longer exists and stays pending"),
 "C04": ("Pool::checkout is split into checkout_idle (pop) and checkout_connect (waiter / marker registration), two separate lock acquisitions", "TWO THREADS: a release or an HTTP/2 attempt completion lands between the two acquisitions of one `call`: the request dials although an idle connection exists / dials a second HTTP/2 connection"),
 "C05": ("Pool::checkout reads the clock before it takes the pool lock and judges expiry against that instant", "TWO THREADS: the check-out waits for the lock while an idle connection's age crosses idle_timeout: the expired connection is handed out"),
 "C06": ("TokenMap::insert is split into a read-only lookup (which reserves the current counter for a new key) and a later register; the reserved token is never re-validated", "TWO THREADS: two first-ever check-outs for two different origins whose lookups both precede either registration get the same token and share idle list, waiters and marker"),
 "C07": ("CloseSender sends on Drop instead of on an explicit send(); GracefulShutdown::poll no longer sends at the signal", "the caller keeps the completed server future alive ((&mut server).await, select! on &mut server) with a connection open at the signal: the future returns Ok but no connection is told to shut down"),
 "C08": ("after a read that matches the preface but leaves fewer than 24 bytes the sniffer returns Pending instead of reading again - without a waker registered", "a first read of 1..23 bytes that all match the preface: when the rest arrives nobody is woken; a fragmented HTTP/2 preface is never served"),
 "C09": ("DuplexIncoming::poll_accept takes connect requests off the channel in batches (poll_recv_many); on a departed client it `continue`s while the rest of the batch sits in a local variable", ">=2 connect requests queued when the accept loop polls, an earlier one whose connect future was polled once and dropped: the clients queued behind it get ConnectionReset"),
 "C10": ("TcpConnecting::connect opens and binds the socket while the candidate list is built (`connect(..)?`) instead of inside each candidate's future", ">=2 candidates of which one fails at socket set-up (a local source address that cannot be bound, an unavailable family) and another would accept: the whole connect fails at once"),
 "C11": ("process_all is refactored around start_next(); the Error arm starts the next candidate and then falls through to the shared start_next() at the bottom of the loop", "a failure during the start phase with >=2 candidates still queued: one failure starts two candidates, the second without an elapsed stagger delay"),
 "C12": ("TlsStream::handshake turns Poll::Ready(Err(UnexpectedEof)) into Ok(default) ('peer closed without close_notify')", "https/wss, the peer closes after the ClientHello or sends a truncated ServerHello: the transport returns Ok(stream) for a handshake that never completed"),
 "C13": ("HttpConnectionBuilder::handshake treats ALPN as authoritative: if TLS negotiated any HTTP version that decides the protocol and the request's version is ignored", "a new TLS connection whose ALPN result is http/1.1 and a request whose version is HTTP/2: HTTP/1.1 on the wire instead of the h2 preface"),
 "C14": ("register_connected() registers the finished dial with poolref.try_lock() instead of lock() ('do not park the executor on the pool mutex')", "TWO THREADS: a background (continued-after-cancel) HTTP/2 dial finishes while another thread holds the pool mutex: the connection is dropped instead of pooled, followers fail"),
 "C15": ("Pool::checkout takes the origin's idle list out of the map under one lock, probes is_open() without the lock and merges the leftovers back (prepend) without checking max_idle_per_host", "THREE overlapping operations: max_idle_per_host >= 2, two idle connections, a check-out overlapping with two releases that refill a fresh list: 2*max-1 idle connections"),
 "C16": ("sort_preferred is rewritten: it finds the first IPv4 and IPv6 address by value, removes them with retain(|a| ..) and pushes them to the front", "a list in which the first address of a family occurs again: every equal entry is removed, addresses are lost"),
 "C17": ("ConnectorService::call exempts CONNECT requests from the 'URI has no scheme' guard (keyed on the method, not on the URI having an authority)", "CONNECT with `*` or an origin-form URI through ConnectorService on an HTTP/1 connection: unreachable!() in authority_form"),
 "C18": ("Braid gains a sticky end-of-stream flag: after a successful read that added no bytes every later read reports EOF; it never checks that the buffer had room", "data pending on the transport, one read with zero free room through Braid / client Stream / server Stream, then any read: EOF, the bytes in flight are lost"),
 "C19": ("TimeoutFuture::poll returns the timeout error when the timer has elapsed, before it polls the inner future", "the future polled once, the inner resolves in time, the next poll happens only after the deadline has fired (a busy caller): the inner result is replaced by the timeout error"),
 "C20": ("TlsConnectionInfoReciever::recv takes the shared state by value (mem::take leaves Empty) before it awaits the receiver", "a request future of the per-connection stack polled before the handshake has delivered its info and then dropped: the connection is treated as plaintext from then on, any Host is forwarded unmarked"),
}

NEEDS_K = {
 "C01": ("PoolInner::push looks the idle list up and applies max_idle_per_host BEFORE it walks the waiting requests, returning early when the connection would not fit", "max_idle_per_host = 0, HTTP/2, a second request that waits for the first one's attempt: push returns before serving the waiter, the second request hangs although nothing was cancelled or broken"),
 "C02": ("HttpConnection::is_open returns !is_closed() instead of is_ready()", "the hand-back task of a released HTTP/1.1 connection is dropped before it finished (its runtime shuts down) while the response body is still unread: WhenReady's destructor sees `open`, the busy connection re-enters the pool and the next request is sent on it"),
 "C03": ("both pool.lock() calls of Checkout's PinnedDrop become pool.try_lock() ('never block in Drop')", "TWO THREADS: the owner of an HTTP/2 attempt is cancelled (or its background attempt fails) while another thread is inside a pool critical section: cancel_connection is skipped, the marker stays for ever, waiters and later requests never proceed"),
 "C04": ("the hand-back of a popped but never delivered HTTP/1.1 connection in Checkout's PinnedDrop uses try_lock()", "TWO THREADS: a request that took the idle connection is dropped unpolled while another thread holds the pool mutex: the healthy connection is destroyed and the next request dials"),
 "C05": ("Waiting::close() drains the closed mailbox with try_recv and hands an unread connection to a new Pooled::release(), which pushes it without the is_open check", "TWO THREADS + PEER: a connection is delivered to R1's mailbox while R1's poll is between its waiter poll and waiter.close(), the peer closes it, R1's dial completes in the same poll: the dead connection is pushed on to waiting R2"),
 "C06": ("UriKey hashes the authority only (Eq still compares the scheme) and TokenMap::insert memoises (hash, token) of the last lookup, returning the token on equal hash without comparing keys", "two origins that differ only in scheme, looked up back to back: they share token, idle list, waiters and marker"),
 "C07": ("the shutdown channel becomes an AtomicBool + futures AtomicWaker (one waker slot) shared by all connection drivers", ">= 2 connections open at the signal, a quiescent one that is not the most recently polled: it is never woken, never told to shut down, stays open"),
 "C08": ("ReadVersion::poll fixes the slice new bytes are compared against once per poll instead of advancing it after each read", "an HTTP/2 preface whose first 24 bytes arrive in >= 2 reads that both complete within ONE poll (no Pending in between): served as HTTP/1"),
 "C09": ("TlsAcceptor::poll_accept polls the handshake once before handing the stream on and discards the result", "a listener with a backlog: bad first bytes already buffered when the connection is accepted; the handshake fails on that first poll, info() panics inside the accept loop, the server ends"),
 "C10": ("TcpConnecting::connect gets a fast path for exactly one candidate that bypasses EyeballSet (and with it the overall deadline)", "exactly one candidate that neither succeeds nor fails, happy_eyeballs_timeout finite, connect_timeout None or larger"),
 "C11": ("process_all refactored into start_next()/start_up_to(target): after a failure it only tops up to the initial concurrency", ">= c+2 candidates, a stagger expiry while the first c attempts are pending, then a failure: the next candidate waits a full stagger delay instead of starting at once"),
 "C12": ("Builder::with_transport rebuilds the builder with tls: None ('a custom transport may already be TLS-wrapped')", "a client built with with_tls()/with_default_tls() BEFORE with_transport(): https and wss requests go out in plaintext"),
 "C13": ("SetHostHeaderLayer moves to the top of the stack in Builder::build_service (above redirect following and the pool)", "a followed cross-authority redirect (hop 2 carries hop 1's Host), or an HTTP/2-version request carried on an HTTP/1.1 connection (no Host at all)"),
 "C14": ("Pool::checkout gets a fast path: TokenMap::get + pop under one lock acquisition, waiter registration under a second", "TWO THREADS: a connection is released between the two acquisitions: it is parked idle, the new request dials and is never served by it"),
 "C15": ("TokenMap::insert split into get (read lock, outside the pool lock) and an unconditional allocate", "TWO THREADS: two first-ever check-outs for ONE origin overlap between lookup and allocation: two tokens, two idle lists, 2 x max_idle_per_host idle connections"),
 "C16": ("EyeballSet's queue becomes a Vec; candidates beyond the initial batch are taken with pop() from the back", ">= concurrency+2 addresses whose leading attempts fail: the rest is started in reverse sorted order"),
 "C17": ("TcpTransport::call gets a fast path for IP-literal hosts; a bracketed host is parsed with .parse::<Ipv6Addr>().expect(..)", "a bracketed host that is legal for http::Uri but not an IPv6 address: [fe80::1%25eth0], [v1.fe], []: panic in the caller's task"),
 "C18": ("server Stream::poll_shutdown remembers that shutdown was STARTED and answers Ok on every later poll", "an inner transport whose shutdown takes more than one poll (Pending or Err first): the retry reports Ok without touching the transport"),
 "C19": ("TimeoutFuture builds no timer for a zero duration ('zero means no timeout') and maps the missing timer to Pending", "a configured timeout of exactly Duration::ZERO and an inner service that is not ready at once: no deadline at all"),
 "C20": ("the SNI layer strips the port with a helper that cuts at the LAST colon instead of parsing an authority", "a bracketed IPv6 literal as host and/or server name: [2001:db8::2] is accepted for [2001:db8::1], [::1]:8443 is rejected for [::1]"),
}

NEEDS_L = {
 "C06": ("UriKey::new drops a 'default' port from the authority, but scheme and port are looked up in the default-port table separately, not as a pair", "one pooled client, an http/ws request to explicit port 443 (or https/wss to port 80) and a same-host request on the scheme's default port: both are keyed alike and share idle list, waiters and marker"),
 "C08": ("ReadVersion counts completed reads and decides HTTP/1 after the 8th read that leaves fewer than 24 bytes ('slow-client guard')", "a correct HTTP/2 preface delivered in 9 or more reads (1 or 2 bytes per read): served as HTTP/1"),
 "C11": ("EyeballSet::push places a candidate straight into the running set while fewer than initial_concurrency are there and the queue is empty; process_all still sizes its initial batch from the queue alone", "candidates added with push (as TcpConnecting does), >= c+1 of them, first attempts that do not complete at once: up to 2c candidates are started at time zero"),
 "C18": ("DuplexStream gets is_write_vectored() and a poll_write_vectored that copies the slices into a scratch buffer, keeps it across a Pending write and only refills it when empty", "a vectored write directly on the duplex stream that returns Pending (pipe full) and is given up, then a vectored write with other data: the stale bytes are sent, the count can exceed what was offered"),
 "C19": ("TimeoutFuture polls its Sleep only once (registering the first poll's waker) and afterwards only asks Sleep::is_elapsed()", "the pending future changes hands: polled once with one waker, then awaited with another, nothing else waking the new owner: the deadline wakes nobody, the request stays pending past its deadline"),
}

NEEDS_H = {}
src = open('/verif/tools/keep_seeds.py').read()
m = re.search(r'NEEDS_H = \{(.*?)\n\}', src, re.S)
for mm in re.finditer(r'"(C\d\d)": \("([^"]*)", "((?:[^"\\]|\\.)*)", "((?:[^"\\]|\\.)*)"\)', m.group(1)):
    NEEDS_H[mm.group(1)] = (mm.group(3), mm.group(4))

root, suffix, confirm_glob, asis_log, final_log = sys.argv[1:6]
NEEDS = NEEDS_I if suffix == 'i' else NEEDS_J if suffix == 'j' else NEEDS_K if suffix == 'k' else NEEDS_L if suffix == 'l' else NEEDS_H

confirm = {}
for f in glob.glob(confirm_glob):
    for l in open(f, errors='replace'):
        mm = re.match(r'CONFIRM (C\d+): suite with change: (.*?) \| demo\((.*?)\) with change: (.*?) \| demo without change: (.*)', l)
        if mm:
            def short(t):
                r = re.search(r'test result: (\w+)\. (\d+) passed; (\d+) failed', t)
                return f"{r.group(1)} ({r.group(2)} passed, {r.group(3)} failed)" if r else t.strip()[:160]
            confirm[mm.group(1)] = dict(suite=mm.group(2), features=mm.group(3), demo_with=short(mm.group(4)), demo_without=short(mm.group(5)))

def read_eval(path):
    ev = {}
    if path == '-' or not os.path.exists(path):
        return ev
    for l in open(path):
        mm = re.match(r'(C\d+)\.out/patch\.diff: caught by:(.*)\| machinery:(.*)\| silent:(.*)', l)
        if mm:
            e = ev.setdefault(mm.group(1), dict(caught=[], machinery=[], silent=[]))
            e['caught'] += mm.group(2).split(); e['machinery'] += mm.group(3).split(); e['silent'] += mm.group(4).split()
    return ev

asis, final = read_eval(asis_log), read_eval(final_log)
rows = []
for pid in sorted(NEEDS):
    out = f"{root}/{pid}.out"
    if not os.path.exists(f"{out}/patch.diff") or pid not in confirm:
        print("skip", pid); continue
    c = confirm[pid]
    ok = c['suite'].startswith('85 passed 0 failed') and 'FAILED' in c['demo_with'] and c['demo_without'].startswith('ok')
    if not ok:
        print("NOT CONFIRMED", pid, c); continue
    sd = f"/verif/seeded/{pid.lower()}{suffix}"
    shutil.rmtree(sd, ignore_errors=True); os.makedirs(sd)
    shutil.copy(f"{out}/patch.diff", f"{sd}/patch.diff")
    if os.path.exists(f"{out}/patch_on_head.diff"):
        shutil.copy(f"{out}/patch_on_head.diff", f"{sd}/patch_on_head.diff")
    if os.path.isdir(f"{out}/demo"):
        shutil.copytree(f"{out}/demo", f"{sd}/demo", ignore=shutil.ignore_patterns('target', '*.log'))
    if os.path.exists(f"{out}/AGENT_README.md"):
        shutil.copy(f"{out}/AGENT_README.md", f"{sd}/AGENT_README.md")
    a, f_ = asis.get(pid), final.get(pid, dict(caught=[], machinery=[], silent=[]))
    meta = {
        "seed": f"{pid.lower()}{suffix}", "breaks_property": pid, "change": NEEDS[pid][0], "needs_to_manifest": NEEDS[pid][1],
        "written_by": "independent sub-agent given only the property text and a scratch worktree" if suffix in ('i', 'j', 'k', 'l') else "re-created by a sub-agent from the one-line description of the round-8 change (the original patch and demonstration were lost with the scratch directory when the session was interrupted)",
        "base_commit": ("d18b97e" if suffix == 'l' else "c7f0ca6" if suffix == 'k' else "1ad2fed" if suffix == 'j' else "ce334d6") + " (patch.diff); patch_on_head.diff, where present, is the same change rebased onto the later hook / fix commits",
        "confirmed_in_scratch_worktree": {
            "command": f"tools/confirm_seed9.sh {pid} {c['features']}".strip() + f"  (SEED_ROOT={root}: pinned suite with the change, then demo/seed_demo.rs with and without it)",
            "suite_with_change": c['suite'], "demo_with_change": c['demo_with'], "demo_without_change": c['demo_without'],
        },
        "quick_checks_against_it": {
            "command": "tools/ev.sh (evaluation sandbox: scratch worktree of /repo's HEAD + a copy of the harness pointed at it; apply, build, run the quick checks, undo)",
            "caught_by": sorted(set(f_['caught'])), "machinery_errors": f_['machinery'],
            "aimed_check_before_strengthening": ({"caught": pid in a['caught'], "caught_by_then": sorted(set(a['caught']))} if a else {"note": "evaluated only against the checks as strengthened after round 8"}),
        },
    }
    json.dump(meta, open(f"{sd}/meta.json", 'w'), indent=1)
    rows.append((meta['seed'], pid, NEEDS[pid][0], NEEDS[pid][1], ' '.join(meta['quick_checks_against_it']['caught_by'])))
print("\n| seed | aimed at | change | needs | caught by (quick tier) |\n|---|---|---|---|---|")
for r in rows:
    print("| " + " | ".join(r) + " |")
