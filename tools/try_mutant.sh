#!/bin/sh
# usage: tools/try_mutant.sh <patch-file> <ID> [<ID>...]   — apply a patch to /repo, run the quick checks, undo.
patch="$(realpath "$1")"; shift
cd /repo || exit 2
if ! git diff --quiet; then echo "repo has uncommitted changes"; exit 2; fi
git apply "$patch" || { echo "patch does not apply"; exit 2; }
for id in "$@"; do
  out=$(cd /verif && VERIF_OUT_ROOT=/verif/target/mutant-out ./check "$id" --tier quick 2>&1)
  rc=$?
  echo "$id rc=$rc $(echo "$out" | grep -c '^VIOLATION') violation lines; $(echo "$out" | grep -E '^(VIOLATION|MACHINERY)' | head -2 | tr '\n' ' ')"
done
git checkout -- . 
