#!/usr/bin/env python3
"""Generate /verif/MANIFEST.json from the table below and validate it against the schema."""
import json, subprocess, sys

ALL = [f"C{i:02d}" for i in range(1, 21)]

# id -> dict(engine, category, text, note, technique, design_ref)
CHECKS = {}

def add(pid, engine, category, text, note, technique, design_ref):
    CHECKS[pid] = dict(engine=engine, category=category, text=text, note=note, technique=technique, design_ref=design_ref)

exec(open('/verif/tools/checks_table.py').read())

def repo_hook_commits():
    out = subprocess.run(["git", "-C", "/repo", "log", "--format=%H %s"], capture_output=True, text=True).stdout
    return [l.split()[0] for l in out.splitlines() if "verif-hooks" in l]

manifest = {
    "version": 1,
    "setup_cmd": "cd /verif/mc && CARGO_NET_OFFLINE=true cargo build --release --offline",
    "hooks": {
        "guard": "cargo feature `verif-hooks` of hyperdriver",
        "enable": "the harness crate /verif/mc depends on hyperdriver = { path = \"/repo\", features = [\"verif-hooks\", \"tls\", \"tls-ring\", \"sni\"] }; every check starts with `cargo build --release --offline` there, which recompiles /repo's working tree",
        "baseline_off_cmd": "cd /repo && CARGO_NET_OFFLINE=true cargo test --workspace --no-fail-fast --offline",
        "source_commits": repo_hook_commits(),
        "add_only": True,
    },
    "engines": [
        {"name": "hdmc", "path": "/verif/mc", "serves_properties": sorted(CHECKS),
         "kind_free_text": "one Rust binary; per-property engines: explicit-state BFS over the real pool (poolmc), virtual-time grid over the real happy-eyeballs scheduler (hemc), bounded-exhaustive input grids against reference functions (inputmc), operation/chunking enumeration over stream adapters and the sniffer (iomc), deviation-bounded schedule and fault-point exploration under a controlled executor (schedmc)"},
    ],
    "checks": [],
    "not_applicable": [],
    "notes": "Every check: `./check <ID> --tier quick|thorough`; exit 0 held, 1 VIOLATION, 2 machinery error. Known findings: /verif/known_findings.json. Replay: ./check <ID> --replay <path>.",
}
for pid in ALL:
    if pid in CHECKS:
        c = CHECKS[pid]
        manifest["checks"].append({
            "property_id": pid,
            "quick_cmd": f"./check {pid} --tier quick",
            "thorough_cmd": f"./check {pid} --tier thorough",
            "evidence_file": f"/verif/evidence/{pid}.json",
            "replay_cmd_template": f"./check {pid} --replay {{path}}",
            "engine": c["engine"],
            "level_claimed": {"category": c["category"], "text": c["text"], "design_ref": c["design_ref"]},
            "level_note": c["note"],
            "technique": c["technique"],
        })
    else:
        manifest["not_applicable"].append({"property_id": pid, "reason": NOT_CLAIMED.get(pid, "check not built yet in this round; no claim is made")})

json.dump(manifest, open('/verif/MANIFEST.json', 'w'), indent=1)
open('/verif/MANIFEST.json', 'a').write("\n")
# validate
sys.path.insert(0, '/opt/veriftools/pyvenv/lib/python3.11/site-packages')
try:
    import jsonschema
    jsonschema.validate(manifest, json.load(open('/root/.vp/MANIFEST.schema.json')))
    print("MANIFEST.json valid;", len(manifest["checks"]), "checks,", len(manifest["not_applicable"]), "not claimed")
except ImportError:
    print("jsonschema not importable; wrote manifest unvalidated")
