#!/bin/bash
# usage: tools/eval_seed9.sh <root> <ID> <checks...> — apply <root>/<ID>.out/patch_on_head.diff (or patch.diff) to /repo,
# run the listed quick checks, undo. One line of output.
root="$1"; id="$2"; shift 2
p="$root/$id.out/patch_on_head.diff"; [ -f "$p" ] || p="$root/$id.out/patch.diff"
cd /repo || exit 2
if ! git diff --quiet; then echo "repo has uncommitted changes"; exit 2; fi
git apply "$p" || { echo "$id: patch does not apply"; exit 2; }
caught=""; silent=""; mach=""
for c in "$@"; do
  out=$(cd /verif && timeout 900 ./check "$c" --tier quick 2>&1); rc=$?
  echo "$out" | grep -E "signature:" | head -3 | sed "s/^/   [$id→$c] /" | cut -c1-260 >> "$root/eval_detail.log"
  if [ $rc -eq 1 ]; then caught="$caught $c"; elif [ $rc -eq 0 ]; then silent="$silent $c"; else mach="$mach $c(rc=$rc)"; fi
done
git checkout -- .
echo "$id.out/patch.diff: caught by:$caught | machinery:$mach | silent:$silent"
