#!/bin/bash
# usage: tools/confirm_seed.sh <ID> [demo test name]
# Confirms a sub-agent's seeded change in its scratch worktree /tmp/seed/<ID> (never in /repo):
#   - the patch applies to a clean checkout, the crate builds, the pinned suite passes with it,
#   - the demonstration fails with it and passes without it.
id="$1"; root=${SEED_ROOT:-/tmp/seed}; wt=$root/$id; out=$root/$id.out
cd "$wt" || exit 2
git checkout -q -- . ; git clean -fdq -- tests examples src 2>/dev/null
git apply "$out/patch.diff" || { echo "CONFIRM $id: patch does not apply"; exit 1; }
# demo files: copy *.rs demos into tests/, apply any demo.diff
for f in "$out"/demo/*.rs; do [ -f "$f" ] && cp "$f" tests/; done
for d in "$out"/demo/*.diff "$out"/demo.diff; do [ -f "$d" ] && git apply "$d"; done
export CARGO_NET_OFFLINE=true
suite=$(timeout 1500 cargo test --workspace --no-fail-fast --offline 2>&1 | grep -E "^test result" | awk '{p+=$4; f+=$6} END{print p" passed "f" failed"}')
echo "CONFIRM $id: suite with change (incl. demo): $suite"
git apply -R "$out/patch.diff"
suite2=$(timeout 1500 cargo test --workspace --no-fail-fast --offline 2>&1 | grep -E "^test result" | awk '{p+=$4; f+=$6} END{print p" passed "f" failed"}')
echo "CONFIRM $id: suite without change (incl. demo): $suite2"
git checkout -q -- . ; git clean -fdq -- tests examples src 2>/dev/null
