#!/bin/bash
# usage: tools/eval_seed.sh <patch-file> [IDs...]  — apply a seeded change to /repo, run quick checks, undo.
# prints one line: "<patch>: caught by: C.. C..; silent: ..."
patch="$(realpath "$1")"; shift
ids="$@"; [ -z "$ids" ] && ids="C01 C02 C03 C04 C05 C06 C07 C08 C09 C10 C11 C12 C13 C14 C15 C16 C17 C18 C19 C20"
cd /repo || exit 2
if ! git diff --quiet; then echo "repo has uncommitted changes"; exit 2; fi
git apply "$patch" || { echo "patch does not apply"; exit 2; }
caught=""; silent=""; mach=""
for id in $ids; do
  out=$(cd /verif && VERIF_OUT_ROOT=/verif/target/mutant-out timeout 900 ./check "$id" --tier quick 2>&1); rc=$?
  if [ $rc -eq 1 ]; then caught="$caught $id"; elif [ $rc -eq 0 ]; then silent="$silent $id"; else mach="$mach $id(rc=$rc)"; fi
done
git checkout -- .
echo "$(basename $(dirname $patch))/$(basename $patch): caught by:$caught | machinery:$mach | silent:$silent"
