#!/bin/bash
# usage: tools/confirm_seed_features.sh <ID> <features>  — for demonstrations that need cargo features:
# runs only the demo test target(s) with the given features, with and without the change, in /tmp/seed/<ID>.
id="$1"; feats="$2"; root=${SEED_ROOT:-/tmp/seed}; wt=$root/$id; out=$root/$id.out
cd "$wt" || exit 2
git checkout -q -- . ; git clean -fdq -- tests examples src 2>/dev/null
git apply "$out/patch.diff" || { echo "CONFIRMF $id: patch does not apply"; exit 1; }
names=""
for f in "$out"/demo/*.rs; do [ -f "$f" ] && cp "$f" tests/ && names="$names --test $(basename "$f" .rs)"; done
export CARGO_NET_OFFLINE=true
with=$(timeout 1500 cargo test --offline --features "$feats" $names 2>&1 | grep -E "^test result" | awk '{p+=$4; f+=$6} END{print p" passed "f" failed"}')
git apply -R "$out/patch.diff"
without=$(timeout 1500 cargo test --offline --features "$feats" $names 2>&1 | grep -E "^test result" | awk '{p+=$4; f+=$6} END{print p" passed "f" failed"}')
echo "CONFIRMF $id: demo ($feats) with change: $with | without change: $without"
sd=/verif/seeded/$(echo $id | tr A-Z a-z)${SEED_SUFFIX}; mkdir -p $sd
printf '{"demo_command": "cargo test --offline --features %s%s", "demo_with_change": "%s", "demo_without_change": "%s"}\n' "$feats" "$names" "$with" "$without" > $sd/confirm_extra.json
git checkout -q -- . ; git clean -fdq -- tests examples src 2>/dev/null
