#!/usr/bin/env python3
"""Write one brief per property for a round of seeded-change sub-agents.
usage: tools/make_briefs.py <root>      e.g. /tmp/seed11  (creates <root>/<ID>.brief.md; the worktrees
<root>/<ID> and the output directories <root>/<ID>.out/demo are created by the caller:
    for id in C01 ... C20; do git -C /repo worktree add -q --detach <root>/$id HEAD; mkdir -p <root>/$id.out/demo; done)
Each sub-agent is then told only: "Read <root>/<ID>.brief.md and carry it out; work only in <root>/<ID>, write only to
<root>/<ID>.out/". The brief contains the property's text and the ideas already used for it (from seeded/*/meta.json) —
nothing else from /verif."""
import json, glob, os, sys

root = sys.argv[1]
os.makedirs(root, exist_ok=True)
used = {}
for m in sorted(glob.glob('/verif/seeded/c*/meta.json')):
    d = json.load(open(m))
    used.setdefault(d['breaks_property'][:3], []).append(f"{d['change']} (needed: {d['needs_to_manifest']})")

POOL = {"C02", "C03", "C04", "C05", "C06", "C14", "C15"}
for l in open('/verif/properties.jsonl'):
    d = json.loads(l)
    pid = d['id']
    anchors = {k: v for k, v in d['anchors'].items() if k in ('files', 'state', 'mechanism')}
    prev = "\n".join(f"  - {x}" for x in used.get(pid, []))
    overlap = """Note: the library normally runs on a multi-threaded tokio runtime. A change whose break needs two (or three) operations
of different tasks to OVERLAP (one running between two lock acquisitions / channel operations of another), rather than a
particular order of whole polls, is especially welcome. The demonstration may then use real threads with a deterministic
hand-over (barriers or channels inside a hand-written Transport / connection type / pool key), as long as it fails reliably
with the change and passes without it.

""" if pid in POOL else ""
    brief = f"""# Brief: write a property-breaking change to hyperdriver ({pid})

You work ONLY in the scratch git worktree `{root}/{pid}` (a checkout of the Rust library
alexrudy/hyperdriver — an HTTP client/server library layered on hyper) and write your results to
`{root}/{pid}.out/`. Do not read or write anything else outside those two directories (in particular not
/repo, not /verif, not other directories under {root}). There is no network: always pass `--offline` to cargo
(all dependencies are already in the cargo cache; do not change Cargo.toml dependencies or Cargo.lock).
NEVER use `git stash` (the stash is shared with other people's worktrees of this repository): to get back to the clean
tree use `git apply -R patch.diff` or `git checkout -- .`.
Always run test binaries / cargo test under `timeout` (e.g. `timeout 900 cargo test ...`) — a hang must not block you.

## The property

**{d['title']}**

{d['statement']}

Quantifier (what it must hold for): {d['quantifier']['text']}

Code it is anchored in: {json.dumps(anchors)}

## Your task

Write a change to the library's source (files under `src/`) that **breaks this property** while

1. the crate still compiles — with default features, and also
   `cargo check --offline --features verif-hooks,tls,tls-ring,sni` (the `verif-hooks` feature contains
   instrumentation; keep it compiling, do not otherwise edit or rely on it);
2. the existing test suite, unedited, still passes:
   `timeout 1500 cargo test --workspace --no-fail-fast --offline` (85 tests incl. doc tests pass on the clean tree);
3. the break needs **something specific to manifest** — a particular interleaving of polls/tasks, a fault
   or cancellation at a particular point, a multi-step sequence of operations, an unusual but legal input or
   configuration value, or two cooperating code sites that each look fine alone. NOT something that ordinary
   use (one plain request) would expose at once;
4. it looks like something a developer could plausibly write: a refactor, an optimisation, a "simplification",
   an off-by-one, a check moved to the wrong side of an action, state cleared too early/late — not sabotage,
   not a deleted feature. Keep it small (a few to a few dozen lines). Do not edit tests, examples or benches.

{overlap}The following ideas have ALREADY been used by others for this property — do something different (a different
code site or a different mechanism), and prefer a part of the property's statement they leave untouched:

{prev}

## Deliverables (all under `{root}/{pid}.out/`)

* `patch.diff` — `git diff` of your change to `src/` only, relative to the clean HEAD; it must apply with
  `git apply` to a clean checkout.
* `demo/seed_demo.rs` — a demonstration: an integration test file that is copied to `tests/seed_demo.rs`
  and run with `cargo test --offline --test seed_demo` (say in the README if it needs `--features ...`).
  It uses only the crate's public API (dev-dependencies already in Cargo.toml are fine: tokio (note: its `test-util`
  feature is NOT enabled for this crate, so `start_paused` is unavailable; avoid the clock or use short real sleeps),
  tower, http-body-util, hyper, etc.), must **fail with your change and pass without it**, deterministically
  (in-memory duplex transports, hand-polling of futures where needed). If a test file cannot do it, a small
  program under `demo/` with a `run.sh` is acceptable.
* `AGENT_README.md` — what the change is and why it breaks the property; exactly what is needed for it to
  manifest; the commands you ran and their results (suite with the change: all pass; demo with the change:
  fails; demo without the change: passes).
  Add a final section **"Observations on the unmodified code"**: anything you noticed in the UNMODIFIED
  library that looks like it already violates this property (or a neighbouring guarantee), each with the
  concrete input/sequence, and say for each whether you actually executed it and what happened. Write
  "none" if you found nothing. These remarks are valuable — spend a little time on them.

When you are done, leave the worktree clean (`git checkout -- . && git clean -fdq -- tests src`), but you may
leave `target/` in place. Your final reply should be a summary of at most 15 lines: the change, what it needs,
the test results, and any observation on the unmodified code.
"""
    open(f'{root}/{pid}.brief.md', 'w').write(brief)
print("briefs written to", root)
