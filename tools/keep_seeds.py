#!/usr/bin/env python3
"""Copy confirmed seeded changes from /tmp/seed/<ID>.out into /verif/seeded/<id>/ with a meta.json.
Reads /tmp/seed/confirm_*.log (suite results in the scratch worktree) and /tmp/seed/eval_*.log (which quick checks fail)."""
import json, os, re, shutil, glob

NEEDS = {
 "C01": ("C01 (also C08)", "server sniffer: `filled` recorded only after the read loop, so bytes read before a Pending read are forgotten", "first bytes of a server connection arriving in fragments with a Pending read in between (small duplex buffers); only methods starting with 'P' or the h2 preface are affected"),
 "C02": ("C02", "WhenReady::drop no longer checks is_open; push checks it only after walking waiters", "a connection ending its use by upgrade/close while a live waiter for the origin exists (issued but not yet polled, or waiting on an h2 attempt)"),
 "C03": ("C03", "PoolInner::push clears the in-flight marker for any *open* connection instead of any *shareable* one", "mixed H1/H2 on one origin: an H1 connection released while an H2 attempt with >=2 waiters is in flight, then the attempt fails or is cancelled"),
 "C04": ("C04", "push hands a non-shareable connection to a waiter with Token::zero()", "a released H1 connection handed to a waiter (issued before the hand-back task ran); when that request releases it the connection is dropped and the next request dials"),
 "C05": ("C05", "IdleConnections::pop checks expiry only on the newest entry", ">=2 idle entries: newest fresh but closed by the peer, an older one expired but open"),
 "C06": ("C06", "UriKey canonicalisation drops the port for authorities containing an upper-case letter", "two origins on one upper-case host differing only in port"),
 "C07": ("C07", "ReadVersion checks the cancelled flag only after a successful read", "shutdown signal while a connection to an auto-detecting server has sent nothing (or part of the preface) and stays silent"),
 "C08": ("C08 (same change as C01's)", "server sniffer: `filled` recorded only after the read loop", "a partial read matching the preface followed by a Pending read"),
 "C09": ("C09", "TcpStream::info() calls getpeername() with expect", "a TCP client that resets its connection while it is still in the accept backlog (real sockets only)"),
 "C10": ("C10/C11", "join_next_with_timeout treats a zero stagger delay like no delay", "delay = Some(0) with initial concurrency below the number of candidates and a slow/hanging early candidate"),
 "C11": ("C11", "stagger deadline kept as an absolute instant that is not re-armed when a failure starts the next attempt", "non-zero delay, an attempt failing strictly inside a stagger window, >=2 more candidates queued"),
 "C12": ("C12", "TlsTransport::call falls back to the plain arm when the host is not a valid TLS server name", "https/wss request to a URI-legal host that rustls rejects as a server name (e.g. 127.1, a~b.example.com) with a TLS configuration present"),
 "C13": ("C13", "origin_form compares only the path component with '/'", "HTTP/1 connection, absolute URI with path '/' or empty AND a query: the query is lost"),
 "C14": ("C14", "Checkout::poll sets inner=Connected when the waiter delivers a connection, dropping the delayed-drop connector", "continue_after_preemption=true and a request pre-empted by a released connection: its own attempt is not continued in the background"),
 "C15": ("C15", "push compares the number of *open* idle entries with max_idle_per_host", "1 <= max_idle < k, the peer closes an idle connection while other requests of the burst are in flight, then another release"),
 "C16": ("C16", "sort_preferred scan stops at the second address of an already-seen family", "list starting with >=2 addresses of one family with the other family later"),
 "C17": ("C17", "HttpConnection::send_request only rewrites versions above HTTP/1.1", "a request with http::Version::HTTP_09: hyper's encoder panics in the spawned connection task"),
 "C18": ("C18", "Rewind::poll_read keeps the delivered head (split_to) instead of the tail of the prefix", "read buffer with less free room than the pending prefix (1-byte, 0-byte or partly filled buffers)"),
 "C19": ("C19", "Checkout::as_delayed does not transfer ownership of the in-flight marker", "HTTP/2 request timing out while dialling (continue_after_preemption=true), the background dial then fails; follow-up HTTP/2 requests wait on a dead attempt"),
 "C20": ("C20", "HTTP/2 host selection loses the Host-header fallback", "HTTP/2 request without URI authority but with a Host header"),
}

NEEDS_B = {
 "C01": ("C01 (same change as c13's)", "origin_form compares only the path component with '/'", "HTTP/1.1 connection, request target '/' with a query"),
 "C02": ("C02", "Pooled::drop pushes an open connection straight to a live waiter, skipping the wait for readiness", "a connection type whose is_open() stays true while busy; a request already waiting when the holder releases"),
 "C03": ("C03 (same change as c19's)", "Checkout::as_delayed does not transfer ownership of the in-flight marker", "H2 owner cancelled while dialling (continue_after_preemption=true), background dial fails"),
 "C04": ("C04", "shareable connection re-pushed at first poll instead of at checkout (partial revert of the D4 repair)", "second HTTP/2 request issued between another's issue and first poll; or cancelling an unpolled HTTP/2 request"),
 "C05": ("C05", "is_open check moved from the hand-back callers into push, after the waiter walk", "exclusive connection closed by the peer before hand-back while another request for the origin is dialling"),
 "C07": ("C07", "GracefulShutdown::poll checks the signal once per wake-up after draining the acceptor", "a connection request already queued at the acceptor in the poll in which the signal is seen resolved"),
 "C09": ("C09", "DuplexIncoming::poll_accept returns Pending (no waker) when the acknowledgement to a departed client fails", "duplex connect future polled once, then dropped before the server pops its request"),
 "C14": ("C14", "delayed (background) checkout inherits the dropped checkout's live waiter", "continue_after_preemption=true, request cancelled while dialling, another connection for the origin released afterwards: delivered to the background checkout, whose dial is then dropped"),
 "C15": ("C15", "PinnedDrop hands an undelivered connection back through an unbounded `restore`", "idle list full, a request takes an idle connection and is cancelled unpolled after another release refilled the list"),
 "C18": ("C18", "TokioIo::poll_write_vectored falls back to per-slice poll_write and keeps going after a short write", "vectored write with >=2 slices on a non-vectored inner writer that accepts only part of a slice that is not the last"),
}

NEEDS_C = {
 "C06": ("C06", "Pool::checkout restarts the key-to-token table whenever the pool tracks no idle connection, waiter or attempt", "origin A's connection has been idle once, is checked out again and in flight; a checkout for another origin arrives (it is issued A's token); A's released connection is then delivered to / popped by the other origin"),
 "C08": ("C08 (second clause)", "Rewind::poll_read falls through to the inner read after copying the prefix and returns its Pending, losing the prefix bytes", "HTTP/1 request whose first fragment is <=24 bytes with the next fragment not yet sent when the handler first reads"),
 "C10": ("C10", "the first error is recorded only in the final drain loop; failures seen in the stagger loop are dropped", "initial concurrency below the number of candidates, a candidate failing while another is queued, all candidates failing with distinguishable errors"),
 "C11": ("C11", "join_next only returns the first failure; later failures do not start the next queued candidate", ">=2 failures, the second while candidates are still queued and another attempt is running, well before stagger expiry (or no stagger)"),
 "C12": ("C12", "TlsTransport::call compares the scheme with Scheme::HTTPS only; wss requests take the plain arm", "TLS configured and a wss:// request"),
 "C13": ("C13", "get_non_default_port treats 443 as default for every scheme", "HTTP/1 connection, scheme http/ws with explicit port 443 and no caller-supplied Host: Host header loses the port"),
 "C16": ("C16", "IpVersion::from_binding rewritten as an Option chain with the wrong order: both local addresses bound gives V4", "both local_address_ipv4 and local_address_ipv6 configured, address list with both families (only visible through TcpTransport, not through the sorting routine)"),
 "C17": ("C17", "check_http1_request applies origin_form before authority_form for CONNECT with scheme https", "CONNECT request with an https:// URI through Http1ChecksLayer on an HTTP/1 connection: unreachable! in the caller's task"),
 "C19": ("C19", "TimeoutFuture::new builds its timer with sleep_until(Instant::now() + timeout)", "a timeout of about i64::MAX seconds or more (Duration::MAX, u64::MAX s): Instant + Duration overflows and Timeout::call panics"),
 "C20": ("C20", "ValidateSNI compares the whole authority (host:port) with the server name", "a Host header / :authority carrying an explicit port"),
}

NEEDS_D = {
 "C01": ("C01", "PinnedDrop of Checkout cancels the in-flight marker even when the attempt is continued in the background", "HTTP/2, continue_after_preemption=true, >=2 concurrent requests to an origin without a connection, the attempt-owning request cancelled while dialling: its un-cancelled sibling fails with 'pool closed'"),
 "C02": ("C02", "WhenReady::poll returns Ready as soon as is_open() is true, without poll_ready", "a connection type whose is_open stays true while busy, released while the previous response is still being read, another request checks out before it is ready"),
 "C03": ("C03 (same change as c14d)", "Waiting::poll reads the waiter channel with try_recv instead of polling it: the request's waker is no longer registered", "a dialling request (polled at least once) to which push delivers a released connection while its own dial is pending: it is not woken"),
 "C04": ("C04", "IdleConnections::pop gives up (and clears the list) when the newest idle entry is unusable", ">=2 idle HTTP/1.1 connections for an origin, the most recently released one closed by the peer: the healthy older one is dropped and the next request dials"),
 "C05": ("C05", "PinnedDrop of an unpolled Checkout hands its popped connection back without the is_open check", "idle connection popped by a request that is never polled, closed by the peer, another request waiting, the first request dropped: the waiter receives the dead connection"),
 "C07": ("C07", "GracefulConnectionDriver returns Pending right after graceful_shutdown() instead of polling the connection again", "a connection that is quiescent (idle keep-alive, idle h2, or silent before its first byte) when the signal fires"),
 "C09": ("C09", "sniffer falls back to HTTP/1 only when the bytes read are not a prefix of the preface: on EOF with an empty or prefix buffer it reads again forever", "auto protocol, a client that closes before sending a non-preface byte: the connection task never finishes (fd leak; under a cooperative executor the poll never returns)"),
 "C14": ("C14 (same change as c03d)", "Waiting::poll reads the waiter channel with try_recv instead of polling it", "request polled once, a connection for its origin released while its dial is pending, no other wake-up"),
 "C15": ("C15", "push evicts the oldest idle entry when the list is full and then always stores the connection", "max_idle_per_host = 0: one idle connection per origin is kept and reused"),
 "C18": ("C18 (same idea as c08c)", "Rewind::poll_read tops up from the inner stream after replaying the prefix and returns the inner result", "read buffer larger than the remaining prefix and no data ready on the inner stream: the prefix bytes already copied are lost with the Pending"),
}

NEEDS_E = {
 "C06": ("C06", "UriKey stores HTTPS for https and HTTP for every other scheme (wss forgotten)", "a request with scheme ws/wss (or a custom scheme) and an http:// request to the same host and explicit port through one pooled client: they share idle list and waiters"),
 "C08": ("C08", "on EOF the sniffer only breaks and no longer falls back to HTTP/1 (version starts as HTTP/2)", "the client's whole stream is 0..23 bytes of the preface (or empty) followed by EOF: served as HTTP/2"),
 "C10": ("C10", "process_all drops the candidate it has just popped when a running attempt fails while candidates are queued", "initial concurrency below the number of candidates and an attempt failing while one is queued: a candidate that would accept is never tried"),
 "C11": ("C11", "join_next_with_timeout keeps the stagger delay only if delay <= timeout; with timeout None the Option comparison is false", "delay = Some(_) with timeout = None, a candidate queued behind a slow or hanging attempt: it is never started by the stagger"),
 "C12": ("C12", "TlsTransportWrapper::call takes the TLS server name from a caller-supplied Host header", "https/wss request whose Host header names another host than the URI: SNI and certificate check use the header name"),
 "C13": ("C13", "check_http2_request removes only the first connection-specific header it finds", "HTTP/2 connection and a request carrying two or more of connection / proxy-connection / keep-alive / transfer-encoding / upgrade"),
 "C16": ("C16", "SocketAddrs::set_port rewrites only addresses whose port is 0", "a resolver answer carrying a non-zero port different from the URI port"),
 "C17": ("C17", "origin_form re-parses the path-and-query text with expect", "HTTP/1 connection, non-CONNECT request, absolute URI with an empty path directly followed by a query (http://host?x=1): panic in the caller's task"),
 "C19": ("C19", "TimeoutFuture arms its timer at the first poll instead of when the request is issued", "a gap between Service::call and the first poll of the future, inner unresolved at the deadline"),
 "C20": ("C20", "host selection uses the URI authority first for every version", "HTTP/1.x request in absolute form whose authority differs from its Host header"),
}

NEEDS_F = {
 "C01": ("C01", "WhenReady::drop no longer checks is_open before handing the connection back", "HTTP/1.1: request A in flight, request B waiting with its own connect pending, A's connection closes (A cancelled mid-flight or Connection: close): B is handed the dead connection and fails"),
 "C02": ("C02", "the readiness wait of a released connection is wrapped in tokio::time::timeout(idle_timeout); on expiry WhenReady is dropped, which returns the still-busy connection", "idle_timeout Some(t>0), a connection type whose is_open stays true while busy, busy for longer than the idle timeout, another request waiting or arriving"),
 "C03": ("C03", "Pool::checkout flags a waiter as depending on the in-flight attempt only for multiplexed requests", "an HTTP/1.1 request arriving while an HTTP/2 attempt for the origin is in flight, the attempt then fails or its owner is cancelled: the HTTP/1.1 waiter is never released"),
 "C04": ("C04 (same change as c01d)", "PinnedDrop of Checkout cancels the in-flight marker even when the attempt is continued in the background", "HTTP/2 attempt owner polled, then cancelled before its dial completes, another HTTP/2 request while the background attempt is pending: second dial"),
 "C05": ("C05", "IdleConnections::pop takes a fast path without the is_open filter when no expiry is configured", "idle_timeout None or zero, a connection handed back open, closed by the peer while idle, then checked out"),
 "C07": ("C07", "the shutdown broadcast uses tokio Notify::notify_waiters instead of the watch channel: a connection driver not yet polled when the signal fires never learns of it", "the signal resolving between Executor::execute(driver) and the driver's first poll"),
 "C09": ("C09", "the TLS acceptor drives the handshake to completion inside poll_accept", "TLS-wrapped acceptor, one client stalling its handshake while connected: later clients are not accepted"),
 "C14": ("C14", "PoolInner::push iterates waiters with drain(..): returning after the first taker drops the senders of everyone queued behind", "HTTP/1.1, two requests waiting on their own dials, one release serves the first; a further release is not offered to the second"),
 "C15": ("C15", "room is checked at release (Pooled::drop) and push inserts unconditionally later (check-then-act across two lock acquisitions)", "two or more HTTP/1.1 connections to one origin whose releases overlap, idle + overlapping releases above max_idle_per_host >= 1"),
 "C18": ("C18 (same change as c01/c08)", "server sniffer: `filled` recorded only after the read loop", "a partial read matching the preface followed by a Pending read"),
}

NEEDS_G = {
 "C06": ("C06", "the per-origin idle table becomes a Vec indexed by token; pop removes an emptied slot with Vec::remove, shifting every higher token's idle list down", ">=2 origins, the higher-token origin has an idle connection, a checkout empties the lower-token origin's idle list: the other origin's idle connections end up under the wrong token"),
 "C08": ("C08", "after a short read the sniffer compares the first n bytes of its buffer again instead of the n new bytes", "a request whose method starts with P (POST, PUT, PATCH), at least 24 bytes long, arriving one byte per read: served as HTTP/2"),
 "C10": ("C10", "process_all returns NoProgress when no attempt is running after the initial batch (instead of when there are no candidates)", "initial concurrency Some(0) with at least one candidate: NoProgress at once, nothing attempted"),
 "C11": ("C11", "the overall timeout wraps only the final drain phase, not the staggered start phase", "timeout Some(T), more candidates than the initial concurrency, nothing succeeding before T: completion at stagger time + T (never, with no stagger and a hanging first attempt)"),
 "C12": ("C12 (same change as c17g)", "TlsTransportWrapper::call validates the bracket-stripped host but passes the unstripped URI host on as the TLS domain", "TLS configured, https/wss, bracketed IPv6 literal host, inner transport connects: expect() panic in TlsStream::new"),
 "C13": ("C13", "check_http2_request keys on the request's version instead of the connection's", "a request whose version is not HTTP/2 (the default HTTP/1.1) on a connection that reports HTTP/2 (ALPN h2): no sanitising, CONNECT not rejected"),
 "C16": ("C16", "sort_preferred uses swap_remove_front instead of remove", "an answer with both families that starts with >=2 addresses of one family: the second address of the leading family is put first, the tail order changes"),
 "C17": ("C17 (same change as c12g)", "TlsTransportWrapper::call passes the unstripped URI host on as the TLS domain", "https request to a bracketed IPv6 host over a TLS-configured transport whose connect succeeds: panic in the caller's task"),
 "C19": ("C19 (effectively C04/C01)", "Pool::checkout gives owns_attempt = multiplex to followers as well", "HTTP/2, >=3 overlapping requests to an origin without a connection, a follower dropped (timed out) while waiting: it cancels the leader's marker and the other waiters"),
 "C20": ("C20", "host selection returns None for HTTP/1.0 and HTTP/0.9 (Host header ignored)", "HTTP/1.0 request with a Host header and a server name present: mismatching host forwarded, matching host forwarded without the validated mark"),
}

NEEDS_H = {
 "C01": ("C01", "set_host_header writes the Host header with insert instead of entry().or_insert_with()", "a caller-supplied Host header that differs from the URI authority, on an HTTP/1 connection: the server sees the URI authority"),
 "C02": ("C02", "WhenReady::poll returns Ready at once when the origin's idle list has no room", "max_idle_per_host = 0, a connection type whose is_open stays true while busy, a request queued as a waiter before the hand-back task is polled: it is handed the busy connection"),
 "C03": ("C03", "Checkout::poll clears owns_attempt when the waiter channel delivers a connection", "mixed HTTP/1.1 and HTTP/2 on one origin: an exclusive connection released to the HTTP/2 attempt owner; with continue_after_preemption=false (or the background attempt failing) the in-flight marker is never cleared and its waiters are never released"),
 "C04": ("C04", "PoolInner::push clears the in-flight marker for any connection (not only shareable ones)", "an HTTP/1.1 connection released while an HTTP/2 attempt is in flight, then a second HTTP/2 request: it dials instead of waiting"),
 "C05": ("C05", "PoolInner::new normalises idle_timeout with as_secs() > 0 (truncating): a sub-second timeout becomes None", "idle_timeout strictly between 0 and 1 s and a connection idle for longer"),
 "C07": ("C07", "the server-side TLS stream's poll_shutdown completes the handshake first", "TLS acceptor, http1 protocol, the signal arriving while a client has sent no (or a partial) ClientHello: the connection task waits for the handshake forever"),
 "C09": ("C09", "DuplexStream::new asserts max_buf_size > 0", "a duplex client connecting with buffer size 0: the assertion fires inside the accept loop and ends the serving future"),
 "C14": ("C14", "PinnedDrop of Checkout checks owns_attempt (cancel) before as_delayed (continue in the background)", "continue_after_preemption=true, the first HTTP/2 request to an origin dropped or pre-empted before its dial finishes: the attempt is discarded instead of continued, followers fail"),
 "C15": ("C15", "Builder::with_transport replaces the configured pool settings with the default", "pool configured before .with_transport(..) in the builder chain, max_idle_per_host below the default"),
 "C18": ("C18", "TokioIo (tokio to hyper direction) advances the hyper cursor by the initialised length instead of the filled length", "an inner tokio reader that initialises more of the ReadBuf than it fills (initialize_unfilled + advance): zeros are delivered as data, EOF is never seen"),
}

import sys
ROUND = sys.argv[1] if len(sys.argv) > 1 else ""
if ROUND == "b":
    NEEDS = NEEDS_B
SEEDROOT = '/tmp/seed'
if ROUND == "c":
    NEEDS = NEEDS_C
    SEEDROOT = '/tmp/seed3'
if ROUND == "d":
    NEEDS = NEEDS_D
    SEEDROOT = '/tmp/seed4'
if ROUND == "e":
    NEEDS = NEEDS_E
    SEEDROOT = '/tmp/seed5'
if ROUND == "f":
    NEEDS = NEEDS_F
    SEEDROOT = '/tmp/seed6'
if ROUND == "g":
    NEEDS = NEEDS_G
    SEEDROOT = '/tmp/seed7'
if ROUND == "h":
    NEEDS = NEEDS_H
    SEEDROOT = '/tmp/seed8'
confirm = {}
for f in ([SEEDROOT + '/confirm.log'] if ROUND in ('c','d','e','f','g','h') else glob.glob('/tmp/seed/r2_confirm*.log') if ROUND == 'b' else glob.glob('/tmp/seed/confirm_*.log') + glob.glob('/tmp/seed/confirm_single_*.log')):
    for l in open(f):
        m = re.match(r'CONFIRM (C\d+): suite (with|without) change \(incl\. demo\): (.*)', l)
        if m:
            confirm.setdefault(m.group(1), {})[m.group(2)] = m.group(3).strip()
evals = {}
for f in ([SEEDROOT + '/eval.log'] if ROUND in ('c','d','e','f','g','h') else sorted(glob.glob('/tmp/seed/r2_eval*.log')) if ROUND == 'b' else sorted(glob.glob('/tmp/seed/eval_*.log'))):
    for l in open(f):
        m = re.match(r'(C\d+)\.out/patch\.diff: caught by:(.*)\| machinery:(.*)\| silent:(.*)', l)
        if m:
            evals[m.group(1)] = dict(caught=m.group(2).split(), machinery=m.group(3).split(), silent=m.group(4).split())

rows = []
for sid, (prop, change, needs) in sorted(NEEDS.items()):
    out = f'{SEEDROOT}/{sid}.out'
    if not os.path.exists(f'{out}/patch.diff'):
        continue
    dst = f'/verif/seeded/{sid.lower()}{ROUND}'
    os.makedirs(dst + '/demo', exist_ok=True)
    shutil.copy(f'{out}/patch.diff', dst + '/patch.diff')
    for d in glob.glob(f'{out}/demo/*'):
        if os.path.isdir(d):
            shutil.copytree(d, os.path.join(dst, 'demo', os.path.basename(d)), dirs_exist_ok=True)
        else:
            shutil.copy(d, dst + '/demo/')
    if os.path.exists(f'{out}/README.md'):
        shutil.copy(f'{out}/README.md', dst + '/AGENT_README.md')
    extra = json.load(open(dst + '/confirm_extra.json')) if os.path.exists(dst + '/confirm_extra.json') else {}
    meta = {
        "seed": sid.lower() + ROUND,
        "breaks_property": prop,
        "change": change,
        "needs_to_manifest": needs,
        "written_by": "independent sub-agent given only the property text and a scratch worktree",
        "confirmed_in_scratch_worktree": {
            "command": f"tools/confirm_seed.sh {sid}  (apply patch + demo in {SEEDROOT}/{sid}, cargo test --workspace --no-fail-fast --offline; then the same without the patch)",
            "suite_with_change_including_demo": confirm.get(sid, {}).get('with'),
            "suite_without_change_including_demo": confirm.get(sid, {}).get('without'),
            **extra,
        },
        "quick_checks_against_it": {
            "command": f"tools/eval_seed.sh seeded/{sid.lower()}{ROUND}/patch.diff  (git apply to /repo, every quick check, git checkout)",
            "caught_by": evals.get(sid, {}).get('caught'),
            "machinery_errors": evals.get(sid, {}).get('machinery'),
        },
    }
    json.dump(meta, open(dst + '/meta.json', 'w'), indent=1)
    rows.append((sid + ROUND.upper(), prop, change, needs, evals.get(sid, {}).get('caught')))

if ROUND:
    with open('/verif/seeded/README.md', 'a') as f:
        f.write(("\nRound 8 (fifth change for the pool, server and adapter properties; all earlier ideas named; sub-agents also asked for observations on the unmodified code):\n\n|" if ROUND == "h" else "\nRound 7 (fourth change for the input- and time-quantified properties; all earlier ideas named):\n\n|" if ROUND == "g" else "\nRound 6 (fourth change for the pool, server and adapter properties; all earlier ideas named):\n\n|" if ROUND == "f" else "\nRound 5 (third change for the input- and time-quantified properties; all earlier ideas named):\n\n|" if ROUND == "e" else "\nRound 4 (pool, server and adapter properties again; both earlier ideas were named and had to be avoided):\n\n|" if ROUND == "d" else "\nRound 3 (properties that had one seed so far; the known idea was named and had to be avoided):\n\n|" if ROUND == "c" else "\nRound 2 (sub-agents were told which kind of defect already existed for the property and asked for a different one):\n\n|") + " seed | aimed at | change | needs | caught by (quick tier) |\n|---|---|---|---|---|\n")
        for sid, prop, change, needs, caught in rows:
            f.write(f"| {sid.lower()} | {prop} | {change} | {needs} | {' '.join(caught) if caught else '—'} |\n")
    print("kept", len(rows)); sys.exit(0)
with open('/verif/seeded/README.md', 'w') as f:
    f.write("# Seeded changes\n\nEach directory holds a property-breaking change written by an independent sub-agent (patch.diff), its demonstration (demo/), the agent's own write-up (AGENT_README.md) and meta.json (what it needs to manifest, how it was confirmed, which quick checks catch it). None of these is ever committed to /repo; `tools/eval_seed.sh` applies one, runs the checks and undoes it.\n\n| seed | aimed at | change | needs | caught by (quick tier) |\n|---|---|---|---|---|\n")
    for sid, prop, change, needs, caught in rows:
        f.write(f"| {sid.lower()} | {prop} | {change} | {needs} | {' '.join(caught) if caught else ('—' if caught is not None else 'not evaluated yet')} |\n")
print("kept", len(rows))
