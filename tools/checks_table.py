NOT_CLAIMED = {}

add("C16", "hdmc/inputmc", "model_checking",
    "Bounded-exhaustive: every address list up to length 8 (thorough 10) over a 4-address alphabet with duplicates, all three preferences, port rewrite, is run through the crate's own sort routine and compared with a reference written from the statement; the space below the bound is enumerated completely.",
    "Reference model is the harness's reading of the statement; 'attempts start in that order' is by composition with C11 (queue order = start order) and a supplementary real-socket run through connect_to_addrs.",
    "bounded-exhaustive input enumeration vs reference model", "DESIGN.md §5, §8 C16")

add("C20", "hdmc/inputmc", "model_checking",
    "Complete grid (version x Host header forms x URI authority forms x SNI present/absent/case/different) through the public ValidateSNI layer around a recording service, compared with a reference predicate written from the statement (named host, case-insensitive, port ignored, validated mark seen by the inner service).",
    "Host/SNI values are a finite menu of syntactically valid forms; cases that name no host are don't-care. TlsConnectionInfo is injected as a request extension (its fields are public), not produced by a real handshake.",
    "bounded-exhaustive input enumeration vs reference model", "DESIGN.md §5, §8 C20")

add("C10", "hdmc/hemc", "model_checking",
    "The real EyeballSet is executed in deterministic virtual time (tokio paused clock) on every configuration of a complete grid: up to 4 (thorough 5) scripted attempts x outcome {ok,err,never} x latency grid x stagger delay {none,0,finite} x overall timeout {none,0,finite...} x initial concurrency {none,0,1..N}; result value and completion time are checked against predicates P1-P7 taken from the statement.",
    "Virtual time in 10 ms units (timer granularity below that is outside the model); ties at one instant are don't-care where the statement does not order them; the TcpConnecting error mapping is a supplementary one-sided run over real loopback sockets.",
    "exhaustive grid execution of the implementation in virtual time, predicate oracle", "DESIGN.md §4, §8 C10")
add("C11", "hdmc/hemc", "model_checking",
    "Same complete grid as C10; first-poll time, completion time and drop of every scripted attempt are recorded in virtual time and checked against Q1-Q5 (order/at-most-once, initial batch bound, every later start justified by an elapsed stagger delay or a failed running attempt, started as soon as either happens, overall deadline met).",
    "Initial concurrency 0 is read as 'the first attempt may start at once'. Same virtual-time assumptions as C10.",
    "exhaustive grid execution of the implementation in virtual time, predicate oracle", "DESIGN.md §4, §8 C11")

_POOL_NOTE = "Granularity is one poll / one drop / one environment answer on a single thread (intra-poll pre-emption at lock boundaries of a multi-threaded runtime is not explored). The harness connection models hyper's sender by open/busy/upgraded flags; the real pool, checkout, waiter, connector and idle code is executed unmodified through the public ConnectionPoolService API. N=2 requests with the full alphabet is searched to fixpoint; N=3 (thorough: also an N=4 slice) is searched over all histories up to a stated depth bound on a property-specific slice of the alphabet. Fingerprint merging is validated by a successor-level merge audit (1 in 8 merges in quick tier, every merge in thorough)."
_POOL_TECH = "explicit-state BFS over event histories of the real pool (stateful exploration of the implementation, fingerprint merging with merge audit)"

add("C02", "hdmc/poolmc", "model_checking",
    "Every reachable state of the real connection pool under the event alphabet issue/poll/cancel/dial ok|fail/handshake ok|fail/respond/conn-ready/conn-close/upgrade/background-task step is visited breadth-first; at every hand-off of a connection to a request the harness connection's holder count, busy flag and upgraded flag are checked, and in every state a non-multiplexed connection has at most one live handle.",
    _POOL_NOTE, _POOL_TECH, "DESIGN.md §3, §8 C02")
add("C03", "hdmc/poolmc", "model_checking",
    "Deadlock-freedom on the explored graph: in every quiescent state (no woken task, pending dial/handshake, unanswered exchange or busy connection) every live request is resolved; in every state polling a live unwoken request on a side replay never makes progress (lost wake-up audit); from every quiescent state a fresh probe request per origin and protocol completes when every dial succeeds. Dial/handshake failures and cancellations at every step are branches of the alphabet; both continue_after_preemption settings.",
    _POOL_NOTE + " Fairness: dials, handshakes, exchanges and busy connections eventually resolve.", _POOL_TECH, "DESIGN.md §3, §8 C03")
add("C04", "hdmc/poolmc", "model_checking",
    "On the same state graph: a request issued while an open unexpired idle connection for its origin is pooled never dials; an HTTP/2 dial never starts while another HTTP/2 dial for the origin is in flight; an HTTP/2 request issued while an open pooled HTTP/2 connection exists neither dials nor is carried on a new connection; cancelling a request that has not used a connection never starts a dial and never destroys the healthy pooled connection it held.",
    _POOL_NOTE + " 'Minimum the history requires' is made precise as these four invariants (the differential re-execution without the cancelled request sketched in the design was not built).", _POOL_TECH, "DESIGN.md §3, §8 C04")
add("C05", "hdmc/poolmc", "model_checking",
    "On the state graph extended with a frozen pool clock and Tick(T/2)/Tick(2T) events, idle_timeout in {None, 0, T}: at every hand-off the connection was not closed before the request was issued, not closed before its hand-back to the pool, and had not been idle longer than T when the request was issued. Peer close is explored while held, busy, idle and queued for hand-back; both is_open flavours (open, open-and-ready).",
    _POOL_NOTE + " Time is the crate's pool clock behind the verif-hooks clock seam (frozen, moved only by Tick).", _POOL_TECH, "DESIGN.md §3, §8 C05")
add("C06", "hdmc/poolmc", "model_checking",
    "State graphs over origin menus differing in scheme, port, host and letter case (pairs at N=2 to fixpoint, a triple and a pair at N=3 to a depth bound): at every hand-off the connection's dialled scheme+authority equals the request's (host compared case-insensitively per RFC 3986); distinct keys never share a pool token.",
    _POOL_NOTE, _POOL_TECH, "DESIGN.md §3, §8 C06")
add("C14", "hdmc/poolmc", "model_checking",
    "On the state graph, for both continue_after_preemption values and both protocols: a request with a released connection delivered to it is woken and its next poll uses that connection; when a request abandons its own in-flight attempt (cancel or pre-emption) the attempt is continued by a background task and its connection reaches the pool (true) or is dropped with no task left behind (false).",
    _POOL_NOTE, _POOL_TECH, "DESIGN.md §3, §8 C14")
add("C15", "hdmc/poolmc", "model_checking",
    "Bursts of k=3 (thorough 4) concurrent HTTP/1.1 requests to one origin with every release order, max_idle_per_host in {0,1,2,k-1,k,k+1}, plus peers closing idle connections and a mixed two-origin H1/H2 run: in every reachable state the idle list of every origin is no longer than the bound (read through the pool snapshot hook).",
    _POOL_NOTE, _POOL_TECH, "DESIGN.md §3, §8 C15")
add("C19", "hdmc/hemc+poolmc", "model_checking",
    "Part 1: the real Timeout service in paused virtual time over a complete grid of inner completion time x inner result x duration x caller's first poll: result, completion time, inner-drop and no-poll-after-resolution. Part 2: dropping the inner future is applied as Cancel(r) in every reachable state of the pool graph (every stage a pooled request can be in) and from every quiescent state a fresh probe request to the origin must complete.",
    _POOL_NOTE + " The composition of TimeoutLayer with the pool is argued (the timeout's only effect on the pool is dropping the inner future), not run as one system.", "exhaustive virtual-time grid + explicit-state BFS of the real pool", "DESIGN.md §8 C19")

add("C08", "hdmc/iomc", "model_checking",
    "Unit level over the real sniffer (ReadVersion) and Rewind through the verif-hooks wrapper and a scripted reader: for a stream family (h2 preface + frames, HTTP/1.1 requests, PRI look-alikes, every strict prefix of the preface followed by EOF or by a diverging byte) every composition of the first 32 bytes with <=3 cuts (covers every single detector transition), Pending placements and read-back capacities; thorough: all 2^23 compositions of the 24-byte window. Oracle: HTTP/2 iff the stream starts with the preface; bytes read back through the rewind equal the bytes sent.",
    "The end-to-end clause (answer identical to a single-protocol server) is covered by the schedmc differential scenario when present in this evidence; otherwise by composition: the protocol handler receives exactly the client's bytes.",
    "bounded-exhaustive enumeration of read chunkings over the real sniffer, reference predicate", "DESIGN.md §6, §8 C08")
add("C18", "hdmc/iomc", "model_checking",
    "Every sequence of up to 4 (thorough 5) steps over an alphabet of 47 (thorough also 62) (operation, environment answer) pairs is executed against each adapter stack (TokioIo both directions and round trip, Rewind with prefix 0/1/3, TlsBraid::NoTls, client and server Stream, the server read stack) over a scripted inner stream, and against both ends of the in-memory duplex (raw, Braid, client/server Stream; buffer sizes 1/2/8); after every step a reference FIFO is compared: nothing invented, reordered, duplicated or lost, pre-filled buffers untouched, Pending/EOF/error propagated.",
    "TcpStream/UnixStream: fixed sequential scripts over real socket pairs (supplementary). TLS record layer (rustls) is trusted. Read buffers are poisoned to make bookkeeping errors of the unsafe ReadBuf bridging visible as byte mismatches; no UB detector is part of the verdict.",
    "bounded-exhaustive operation-sequence enumeration vs reference FIFO", "DESIGN.md §6, §8 C18")
