NOT_CLAIMED = {}

add("C16", "hdmc/inputmc", "model_checking",
    "Bounded-exhaustive: every address list up to length 8 (thorough 10) over a 4-address alphabet with duplicates, all three preferences, port rewrite, is run through the crate's own sort routine and compared with a reference written from the statement; the space below the bound is enumerated completely.",
    "Reference model is the harness's reading of the statement; 'attempts start in that order' is by composition with C11 (queue order = start order) and a supplementary real-socket run through connect_to_addrs.",
    "bounded-exhaustive input enumeration vs reference model", "DESIGN.md §5, §8 C16")

add("C20", "hdmc/inputmc", "model_checking",
    "Complete grid (version x Host header forms x URI authority forms x SNI present/absent/case/different) through the public ValidateSNI layer around a recording service, compared with a reference predicate written from the statement (named host, case-insensitive, port ignored, validated mark seen by the inner service).",
    "Host/SNI values are a finite menu of syntactically valid forms; cases that name no host are don't-care. TlsConnectionInfo is injected as a request extension (its fields are public), not produced by a real handshake.",
    "bounded-exhaustive input enumeration vs reference model", "DESIGN.md §5, §8 C20")
