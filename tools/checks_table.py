NOT_CLAIMED = {}

add("C16", "hdmc/inputmc", "model_checking",
    "Bounded-exhaustive: every address list up to length 8 (thorough 10) over a 4-address alphabet with duplicates, all three preferences, port rewrite, is run through the crate's own sort routine and compared with a reference written from the statement; the space below the bound is enumerated completely.",
    "Reference model is the harness's reading of the statement; 'attempts start in that order' is by composition with C11 (queue order = start order) and a supplementary real-socket run through connect_to_addrs.",
    "bounded-exhaustive input enumeration vs reference model", "DESIGN.md §5, §8 C16")

add("C20", "hdmc/inputmc", "model_checking",
    "Complete grid (version x Host header forms x URI authority forms x SNI present/absent/case/different) through the public ValidateSNI layer around a recording service, compared with a reference predicate written from the statement (named host, case-insensitive, port ignored, validated mark seen by the inner service).",
    "Host/SNI values are a finite menu of syntactically valid forms; cases that name no host are don't-care. TlsConnectionInfo is injected as a request extension (its fields are public), not produced by a real handshake.",
    "bounded-exhaustive input enumeration vs reference model", "DESIGN.md §5, §8 C20")

add("C10", "hdmc/hemc", "model_checking",
    "The real EyeballSet is executed in deterministic virtual time (tokio paused clock) on every configuration of a complete grid: up to 4 (thorough 5) scripted attempts x outcome {ok,err,never} x latency grid x stagger delay {none,0,finite} x overall timeout {none,0,finite...} x initial concurrency {none,0,1..N}; result value and completion time are checked against predicates P1-P7 taken from the statement.",
    "Virtual time in 10 ms units (timer granularity below that is outside the model); ties at one instant are don't-care where the statement does not order them; the TcpConnecting error mapping is a supplementary one-sided run over real loopback sockets.",
    "exhaustive grid execution of the implementation in virtual time, predicate oracle", "DESIGN.md §4, §8 C10")
add("C11", "hdmc/hemc", "model_checking",
    "Same complete grid as C10; first-poll time, completion time and drop of every scripted attempt are recorded in virtual time and checked against Q1-Q5 (order/at-most-once, initial batch bound, every later start justified by an elapsed stagger delay or a failed running attempt, started as soon as either happens, overall deadline met).",
    "Initial concurrency 0 is read as 'the first attempt may start at once'. Same virtual-time assumptions as C10.",
    "exhaustive grid execution of the implementation in virtual time, predicate oracle", "DESIGN.md §4, §8 C11")
