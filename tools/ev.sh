#!/bin/bash
# usage: tools/ev.sh <seed-root> <ID> <checks...>
# Evaluation sandbox (does not touch /repo or /verif/mc): $EV/repo is a scratch worktree of /repo's HEAD,
# $EV/mc a copy of the harness pointed at it (sync with: rsync -a --delete /verif/mc/src/ $EV/mc/src/).
EV=${EV_DIR:-/tmp/ev}
root="$1"; id="$2"; shift 2
p="$root/$id.out/patch_on_head.diff"; [ -f "$p" ] || p="$root/$id.out/patch.diff"; [ -f "$p" ] || p="$root/$id/patch.diff"
cd $EV/repo || exit 2
git checkout -q -- . ; git apply "$p" || { echo "$id: patch does not apply"; exit 2; }
if ! (cd $EV/mc && CARGO_NET_OFFLINE=true CARGO_TARGET_DIR=$EV/target cargo build --release --offline >$EV/build.log 2>&1); then
  echo "$id: BUILD FAILED"; git checkout -q -- .; exit 2; fi
caught=""; silent=""; mach=""
for c in "$@"; do
  out=$(cd /verif && VERIF_OUT_ROOT=$EV/out timeout 900 $EV/target/release/hdmc "$c" --tier quick 2>&1); rc=$?
  echo "$out" | grep -E "signature:" | head -3 | sed "s/^/   [$id→$c] /" | cut -c1-260 >> $EV/detail.log
  if [ $rc -eq 1 ]; then caught="$caught $c"; elif [ $rc -eq 0 ]; then silent="$silent $c"; else mach="$mach $c(rc=$rc)"; fi
done
git checkout -q -- .
echo "$id.out/patch.diff: caught by:$caught | machinery:$mach | silent:$silent"
