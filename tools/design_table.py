#!/usr/bin/env python3
"""Markdown table for DESIGN.md §12.1 from the quick evidence (/verif/evidence) and a thorough evidence dir."""
import json, sys, os
q='/verif/evidence'; t=sys.argv[1] if len(sys.argv)>1 else '/verif/target/thorough-out/evidence'
def load(d,i):
    p=os.path.join(d,f'{i}.json')
    return json.load(open(p)) if os.path.exists(p) else None
def fmt(e):
    if not e: return '—'
    c=e['coverage']; parts=[]
    if 'states' in c and c.get('states'): parts.append(f"{c['states']:,} states / {c.get('transitions',0):,} transitions")
    if c.get('evaluations'): parts.append(f"{c['evaluations']:,} executions")
    if c.get('schedules_executed_twice_and_compared'): parts.append(f"{c['schedules_executed_twice_and_compared']:,} re-run and compared")
    if c.get('merge_audits'): parts.append(f"{c['merge_audits']:,} merge audits")
    if c.get('interleavings_executed'): parts.append(f"{c['interleavings_executed']:,} interleavings of {c.get('interleaving_operation_pairs',0):,} groups of overlapping operations")
    if c.get('miri_stage_executions'): parts.append(f"{c['miri_stage_executions']:,} under miri")
    if c.get('exhaustive') is False: parts.append("a cap was hit (see evidence)")
    return "; ".join(parts)+f" ({e['wall_s']:.0f} s)"
print("| id | quick tier | thorough tier |\n|----|-----------|---------------|")
for n in range(1,21):
    i=f"C{n:02d}"
    print(f"| {i} | {fmt(load(q,i))} | {fmt(load(t,i))} |")
